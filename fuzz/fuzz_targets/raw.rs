//! C20 on raw bytes: byte 0 selects the position (after a valid handshake: framed command
//! stream / unframed bytes; or instead of the handshake), the rest is handed to run_on verbatim.
#![no_main]
use libfuzzer_sys::fuzz_target;
use std::sync::Once;
use vcheck::engine;
use vcheck::props::c20;

static INIT: Once = Once::new();

fuzz_target!(|data: &[u8]| {
    INIT.call_once(|| {
        engine::install_panic_hook();
        engine::start_watchdog(true);
    });
    if data.is_empty() {
        return;
    }
    let case = c20::raw_case(data);
    if let Some((path, msg)) = engine::eval_for_fuzz(&c20::C20, &case) {
        engine::outln(&format!("  failure :: {}", msg));
        engine::outln(&format!("VIOLATION property=C20 replay={}", path.display()));
        std::process::abort();
    }
});
