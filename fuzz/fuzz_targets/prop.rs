//! Coverage-guided search over a property's own generator: the fuzzer's bytes are read as the
//! choice stream of `Prop::gen`, the case is executed with the property's oracle (the semantic
//! oracle lives inside the target), and an unknown failure saves a replay file and aborts so
//! that libFuzzer keeps the input as an artifact.  Property chosen by VERIF_FUZZ_PROP.
#![no_main]
use libfuzzer_sys::fuzz_target;
use std::sync::Once;
use vcheck::engine::{self, Prop, Tier};
use vcheck::gen::G;
use vcheck::props;

static INIT: Once = Once::new();

fn run<P: Prop>(p: &P, data: &[u8]) {
    let choices: Vec<u32> = data.chunks(4).map(|c| {
        let mut b = [0u8; 4];
        b[..c.len()].copy_from_slice(c);
        u32::from_le_bytes(b)
    }).collect();
    let mut g = G::new(&choices);
    g.fuzzing = true;
    let case = match engine::catch(|| p.gen(&mut g, Tier::Thorough)) {
        Ok(c) => c,
        Err(_) => return, // generator bug: not the library's problem
    };
    if let Some((path, msg)) = engine::eval_for_fuzz(p, &case) {
        engine::outln(&format!("  failure :: {}", msg));
        engine::outln(&format!("VIOLATION property={} replay={}", p.id(), path.display()));
        std::process::abort();
    }
}

fuzz_target!(|data: &[u8]| {
    INIT.call_once(|| {
        // libfuzzer-sys installs a panic hook that aborts: replace it, panics are the oracle's business
        engine::install_panic_hook();
        engine::start_watchdog(true);
    });
    let prop = std::env::var("VERIF_FUZZ_PROP").unwrap_or_else(|_| "C20".to_string());
    match prop.as_str() {
        "C01" => run(&props::c01::C01, data),
        "C02" => run(&props::c02::C02, data),
        "C03" => run(&props::c03::C03, data),
        "C05" => run(&props::c05::C05, data),
        "C06" => run(&props::c06::C06, data),
        "C07" => run(&props::c07::C07, data),
        "C08" => run(&props::c08::C08, data),
        "C09" => run(&props::c09::C09, data),
        "C10" => run(&props::c10::C10, data),
        "C11" => run(&props::c11::C11, data),
        "C12" => run(&props::c12::C12, data),
        "C14" => run(&props::c14::C14, data),
        "C16" => run(&props::c16::C16, data),
        "C17" => run(&props::c17::C17, data),
        "C18" => run(&props::c18::C18, data),
        _ => run(&props::c20::C20, data),
    }
});
