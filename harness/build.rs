// Re-reads /repo/src/errorcodes.rs on every build and emits the list of ErrorKind variants
// that *currently* exist (name, discriminant), so C13 enumerates the live enum.
use std::io::Write;
fn main() {
    println!("cargo:rerun-if-env-changed=VERIF_REPO");
    let repo = std::env::var("VERIF_REPO").unwrap_or_else(|_| "/repo".to_string());
    let src_path = format!("{}/src/errorcodes.rs", repo);
    let src_path = src_path.as_str();
    println!("cargo:rerun-if-changed={}", src_path);
    let src = std::fs::read_to_string(src_path).expect("read errorcodes.rs");
    let start = src.find("\npub enum ErrorKind {").expect("enum ErrorKind");
    let body = &src[start..];
    let end = body.find("\n}").expect("end of enum");
    let body = &body[..end];
    let mut out = String::from("&[\n");
    for line in body.lines() {
        let l = line.trim();
        if l.starts_with("//") || l.starts_with('#') || !l.ends_with(',') {
            continue;
        }
        if let Some((name, val)) = l.trim_end_matches(',').split_once('=') {
            let name = name.trim();
            let val = val.trim();
            if !name.is_empty() && name.chars().all(|c| c.is_ascii_alphanumeric() || c == '_') {
                if let Ok(v) = val.parse::<u16>() {
                    out.push_str(&format!("    (\"{}\", {}u16),\n", name, v));
                }
            }
        }
    }
    assert!(out.lines().count() > 100, "could not extract ErrorKind variants");
    out.push_str("]\n");
    let dir = std::env::var("OUT_DIR").unwrap();
    let mut f = std::fs::File::create(format!("{}/error_kinds.rs", dir)).unwrap();
    f.write_all(out.as_bytes()).unwrap();
}
