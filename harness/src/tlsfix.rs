//! TLS fixtures: a self-signed server certificate and a client certificate, generated once per
//! process with rcgen (key generation randomness does not influence any verdict).

use rustls::pki_types::{CertificateDer, PrivateKeyDer, PrivatePkcs8KeyDer};
use std::sync::{Arc, OnceLock};

pub struct Fixtures {
    pub server_cert: Vec<u8>,
    pub server_key: Vec<u8>,
    pub client_cert: Vec<u8>,
    pub client_key: Vec<u8>,
    pub server_plain: Arc<rustls::ServerConfig>,
    /// server that asks for (but does not require) client certificates
    pub server_client_auth: Arc<rustls::ServerConfig>,
}

static FIX: OnceLock<Fixtures> = OnceLock::new();

pub fn key(der: &[u8]) -> PrivateKeyDer<'static> {
    PrivateKeyDer::Pkcs8(PrivatePkcs8KeyDer::from(der.to_vec()))
}

pub fn fixtures() -> &'static Fixtures {
    FIX.get_or_init(|| {
        let s = rcgen::generate_simple_self_signed(vec!["localhost".to_string()]).expect("rcgen");
        let c = rcgen::generate_simple_self_signed(vec!["client".to_string()]).expect("rcgen");
        let server_cert = s.serialize_der().unwrap();
        let server_key = s.serialize_private_key_der();
        let client_cert = c.serialize_der().unwrap();
        let client_key = c.serialize_private_key_der();
        let server_plain = Arc::new(
            rustls::ServerConfig::builder()
                .with_no_client_auth()
                .with_single_cert(vec![CertificateDer::from(server_cert.clone())], key(&server_key))
                .expect("server config"),
        );
        let mut roots = rustls::RootCertStore::empty();
        roots.add(CertificateDer::from(client_cert.clone())).expect("root");
        let verifier = rustls::server::WebPkiClientVerifier::builder(Arc::new(roots)).allow_unauthenticated().build().expect("verifier");
        let server_client_auth = Arc::new(
            rustls::ServerConfig::builder()
                .with_client_cert_verifier(verifier)
                .with_single_cert(vec![CertificateDer::from(server_cert.clone())], key(&server_key))
                .expect("server config"),
        );
        Fixtures { server_cert, server_key, client_cert, client_key, server_plain, server_client_auth }
    })
}
