//! Runner: sharded proptest drivers, panic capture, known findings, evidence, replay files.

use crate::gen::{ChoiceStrategy, G};
use proptest::test_runner::{Config, RngAlgorithm, TestCaseError, TestError, TestRng, TestRunner};
use serde::de::DeserializeOwned;
use serde::Serialize;
use serde_json::{json, Value as J};
use std::cell::{Cell, RefCell};
use std::collections::{BTreeMap, HashSet};
use std::hash::{Hash, Hasher};
use std::panic::{self, AssertUnwindSafe};
use std::path::{Path, PathBuf};
use std::sync::atomic::{AtomicBool, AtomicU64, Ordering};
use std::sync::Mutex;
use std::time::Instant;

/// The library under test prints debugging noise to stdout (`out!("read {}", f)` in the FLOAT
/// parameter decoder).  At start-up the real stdout is saved and fd 1 is pointed at /dev/null;
/// everything the harness reports goes through `outln`.
static REAL_STDOUT: std::sync::atomic::AtomicI32 = std::sync::atomic::AtomicI32::new(1);

pub fn silence_library_stdout() {
    unsafe {
        let saved = libc::dup(1);
        let devnull = libc::open(b"/dev/null\0".as_ptr() as *const libc::c_char, libc::O_WRONLY);
        if saved >= 0 && devnull >= 0 {
            libc::dup2(devnull, 1);
            libc::close(devnull);
            REAL_STDOUT.store(saved, Ordering::SeqCst);
        }
    }
}

pub fn outln(s: &str) {
    let fd = REAL_STDOUT.load(Ordering::SeqCst);
    let mut line = s.as_bytes().to_vec();
    line.push(b'\n');
    let mut off = 0;
    while off < line.len() {
        let n = unsafe { libc::write(fd, line[off..].as_ptr() as *const libc::c_void, line.len() - off) };
        if n <= 0 {
            break;
        }
        off += n as usize;
    }
}

#[macro_export]
macro_rules! out {
    ($($a:tt)*) => { $crate::engine::outln(&format!($($a)*)) };
}

/// where replays, known findings, data, evidence and failures live (overridable for scratch
/// mutant runs that must not touch /verif)
pub fn verif_dir() -> PathBuf {
    PathBuf::from(std::env::var("VERIF_HOME").unwrap_or_else(|_| "/verif".to_string()))
}
/// the repository the harness was built against (only used to read source lines for panic
/// signatures)
pub fn repo_dir() -> PathBuf {
    PathBuf::from(std::env::var("VERIF_REPO").unwrap_or_else(|_| "/repo".to_string()))
}

#[derive(Clone, Copy, PartialEq, Eq, Debug)]
pub enum Tier {
    Quick,
    Thorough,
}
impl Tier {
    pub fn name(self) -> &'static str {
        match self {
            Tier::Quick => "quick",
            Tier::Thorough => "thorough",
        }
    }
    /// pick by tier
    pub fn pick<T>(self, q: T, t: T) -> T {
        match self {
            Tier::Quick => q,
            Tier::Thorough => t,
        }
    }
}

// ------------------------------------------------------------------------------------------
// panic capture

#[derive(Clone, Debug)]
pub struct PanicRec {
    pub file: String,
    pub line: u32,
    pub msg: String,
}

thread_local! {
    static LAST_PANIC: RefCell<Option<PanicRec>> = RefCell::new(None);
    /// JSON of the case in flight on this thread (for double-panic aborts)
    static JOURNAL: RefCell<Option<(String, String)>> = RefCell::new(None);
    static QUIET_DEPTH: Cell<u32> = Cell::new(0);
}

pub fn install_panic_hook() {
    panic::set_hook(Box::new(|info| {
        let (file, line) = info
            .location()
            .map(|l| (l.file().to_string(), l.line()))
            .unwrap_or_else(|| ("?".into(), 0));
        let msg = if let Some(s) = info.payload().downcast_ref::<&str>() {
            s.to_string()
        } else if let Some(s) = info.payload().downcast_ref::<String>() {
            s.clone()
        } else {
            "<non-string panic>".to_string()
        };
        if std::thread::panicking() && panic_count_is_double() {
            // a second panic while unwinding: the process is about to abort.  Save the case.
            let j = JOURNAL.with(|j| j.borrow().clone());
            let first = LAST_PANIC.with(|p| p.borrow().clone()).map(|p| format!("{}:{}: {}", p.file, p.line, p.msg)).unwrap_or_default();
            if let Some((prop, case)) = j {
                let path = write_failure_file(&prop, &case, &format!("process abort: first panic {} ; second panic while unwinding {}:{}: {}", first, file, line, msg), "abort");
                out!("  first panic: {}", first);
                out!("  second panic (in a destructor, while unwinding): {}:{}: {}", file, line, msg);
                out!("ABORT-CASE property={} replay={}", prop, path.display());
            }
            else {
                eprintln!("INFRA: double panic outside a case: first {} ; second {}:{}: {}", first, file, line, msg);
                std::process::exit(2);
            }
            // exit code 3 is translated by ./check
            std::process::exit(3);
        }
        LAST_PANIC.with(|p| {
            let mut p = p.borrow_mut();
            // keep the FIRST panic of a case
            if p.is_none() {
                *p = Some(PanicRec { file, line, msg });
            }
        });
    }));
}

thread_local! {
    static IN_FLIGHT: Cell<u32> = Cell::new(0);
}

fn panic_count_is_double() -> bool {
    // the hook runs with thread::panicking()==true even for the first panic; we track depth
    IN_FLIGHT.with(|c| {
        let n = c.get() + 1;
        c.set(n);
        n >= 2
    })
}

/// run `f`, catching a panic; returns the first panic record of the run
pub fn catch<T>(f: impl FnOnce() -> T) -> Result<T, PanicRec> {
    LAST_PANIC.with(|p| *p.borrow_mut() = None);
    IN_FLIGHT.with(|c| c.set(0));
    let r = panic::catch_unwind(AssertUnwindSafe(f));
    IN_FLIGHT.with(|c| c.set(0));
    match r {
        Ok(v) => {
            LAST_PANIC.with(|p| *p.borrow_mut() = None);
            Ok(v)
        }
        Err(_) => Err(LAST_PANIC.with(|p| p.borrow_mut().take()).unwrap_or(PanicRec {
            file: "?".into(),
            line: 0,
            msg: "?".into(),
        })),
    }
}

/// Panic signature: (file relative to the repo, trimmed text of the source line, message with
/// digits normalised).  Stable under insertion of unrelated lines.
pub fn panic_signature(p: &PanicRec) -> String {
    let rel = rel_file(&p.file);
    let src = source_line(&p.file, p.line);
    format!("{}|{}|{}", rel, src, normalise_msg(&p.msg))
}

pub fn rel_file(file: &str) -> String {
    let repo = format!("{}/", repo_dir().display());
    if let Some(r) = file.strip_prefix(&repo) {
        r.to_string()
    } else if let Some(i) = file.find("/registry/src/") {
        // registry crate: keep crate-relative path
        let rest = &file[i + "/registry/src/".len()..];
        rest.splitn(2, '/').nth(1).unwrap_or(rest).to_string()
    } else if let Some(i) = file.find("/library/") {
        file[i + 1..].to_string()
    } else {
        file.to_string()
    }
}

pub fn is_repo_file(file: &str) -> bool {
    file.starts_with(&format!("{}/", repo_dir().display())) || (file.starts_with("src/") && repo_dir().join(file).exists())
}

fn source_line(file: &str, line: u32) -> String {
    let path = if file.starts_with('/') {
        PathBuf::from(file)
    } else {
        repo_dir().join(file)
    };
    if !is_repo_file(file) {
        return String::new();
    }
    std::fs::read_to_string(&path)
        .ok()
        .and_then(|s| s.lines().nth(line.saturating_sub(1) as usize).map(|l| l.trim().to_string()))
        .unwrap_or_default()
}

pub fn normalise_msg(m: &str) -> String {
    // digits -> N, lists of numbers -> [..], bounded length: the same call site yields one key
    let mut out = String::new();
    let mut in_num = false;
    for ch in m.chars().take(300) {
        if ch.is_ascii_digit() {
            if !in_num {
                out.push('N');
                in_num = true;
            }
        } else {
            in_num = false;
            out.push(ch);
        }
    }
    // collapse "[N, N, N]" and "[]"
    let mut res = String::new();
    let b: Vec<char> = out.chars().collect();
    let mut i = 0;
    while i < b.len() {
        if b[i] == '[' {
            let mut j = i + 1;
            while j < b.len() && (b[j] == 'N' || b[j] == ',' || b[j] == ' ') {
                j += 1;
            }
            if j < b.len() && b[j] == ']' {
                res.push_str("[..]");
                i = j + 1;
                continue;
            }
        }
        res.push(b[i]);
        i += 1;
    }
    res.chars().take(120).collect()
}

// ------------------------------------------------------------------------------------------
// known findings

#[derive(Clone, Debug)]
pub struct Known {
    pub property: String,
    pub key: String,
    pub what: String,
}

pub fn load_known() -> Vec<Known> {
    let path = verif_dir().join("KNOWN_FINDINGS.txt");
    let mut out = Vec::new();
    if let Ok(s) = std::fs::read_to_string(path) {
        for l in s.lines() {
            let l = l.trim();
            if let Some(rest) = l.strip_prefix("known:") {
                // known: property=Cxx key=<...> what=<...>
                let rest = rest.trim();
                let prop = rest
                    .strip_prefix("property=")
                    .and_then(|r| r.split_whitespace().next())
                    .unwrap_or("")
                    .to_string();
                let key = rest
                    .find(" key=")
                    .map(|i| &rest[i + 5..])
                    .map(|r| r.split(" what=").next().unwrap_or("").trim().to_string())
                    .unwrap_or_default();
                let what = rest.find(" what=").map(|i| rest[i + 6..].trim().to_string()).unwrap_or_default();
                out.push(Known { property: prop, key, what });
            }
        }
    }
    out
}

// ------------------------------------------------------------------------------------------
// verdicts

#[derive(Clone, Debug)]
pub struct Failure {
    /// specific key (matched against KNOWN_FINDINGS.txt)
    pub key: String,
    pub msg: String,
}

#[derive(Default, Debug)]
pub struct Exec {
    pub failures: Vec<Failure>,
    pub nontrivial: bool,
    /// generator/behaviour classes for the histogram
    pub classes: Vec<String>,
    /// tolerated, counted observations (e.g. refused_by_panic)
    pub notes: Vec<String>,
    /// additive counters reported in the evidence (e.g. values_checked)
    pub counters: Vec<(String, u64)>,
}

impl Exec {
    pub fn fail(&mut self, key: impl Into<String>, msg: impl Into<String>) {
        self.failures.push(Failure { key: key.into(), msg: msg.into() });
    }
    pub fn class(&mut self, c: impl Into<String>) {
        self.classes.push(c.into());
    }
    pub fn note(&mut self, c: impl Into<String>) {
        self.notes.push(c.into());
    }
    pub fn ok(&self) -> bool {
        self.failures.is_empty()
    }
    pub fn count(&mut self, k: impl Into<String>, n: u64) {
        self.counters.push((k.into(), n));
    }
    pub fn note_n(&mut self, k: impl Into<String>, n: u64) {
        if n > 0 {
            self.counters.push((format!("tolerated:{}", k.into()), n));
        }
    }
}

pub trait Prop: Sync {
    type Case: Serialize + DeserializeOwned + std::fmt::Debug + Send + Sync;
    fn id(&self) -> &'static str;
    fn level(&self) -> &'static str {
        "exploration"
    }
    fn rule(&self) -> String;
    fn assumptions(&self) -> Vec<String> {
        vec![]
    }
    /// random cases to run at this tier
    fn cases(&self, tier: Tier) -> u64;
    /// length of the choice stream handed to `gen`
    fn choice_len(&self) -> usize {
        2048
    }
    fn gen(&self, g: &mut G<'_>, tier: Tier) -> Self::Case;
    /// enumerated / boundary cases, run before the random ones
    fn fixed(&self, _tier: Tier) -> Vec<Self::Case> {
        vec![]
    }
    /// true if `fixed` enumerates some finite sub-domain completely
    fn exhaustive_note(&self, _tier: Tier) -> Option<String> {
        None
    }
    fn exec(&self, case: &Self::Case) -> Exec;
    /// extra evidence keys
    fn extra(&self) -> J {
        J::Null
    }
    /// coverage-guided campaigns for the thorough tier: (fuzz target, runs)
    /// run `conv::canary()` after every case (properties whose statement covers what the canary
    /// asserts: a well-formed greeting, one conformant reply per command, exact text values)
    fn canary(&self) -> bool {
        false
    }
    fn fuzz_plan(&self, _tier: Tier) -> Vec<(&'static str, u64)> {
        vec![]
    }
}

#[derive(Debug, Default)]
pub struct FuzzOutcome {
    pub target: String,
    pub ran: bool,
    pub skipped_reason: Option<String>,
    pub executions: u64,
    pub coverage_edges: u64,
    pub features: u64,
    pub corpus: u64,
    pub violation_replay: Option<String>,
    pub wall_s: f64,
}

/// Re-run a saved case in a fresh process; true if it hangs (or fails) again.
pub fn confirm_hang(prop: &str, path: &str) -> bool {
    let exe = match std::env::current_exe() {
        Ok(e) => e,
        Err(_) => return false,
    };
    // the fuzz target is not the check binary: fall back to the harness binary next to /verif
    let exe = if exe.file_name().map(|n| n == "vcheck").unwrap_or(false) { exe } else { verif_dir().join("harness/target/verif/vcheck") };
    match std::process::Command::new(exe).arg(prop).arg("replay").arg(path).output() {
        Ok(o) => matches!(o.status.code(), Some(4) | Some(1)),
        Err(_) => false,
    }
}

/// Run one libFuzzer campaign (cargo +nightly fuzz) bounded by -runs, from a fresh corpus
/// directory.  Any trouble building or starting it is reported as "skipped", never as a
/// violation.
pub fn run_fuzz_campaign(prop: &str, target: &str, runs: u64, seed: u64) -> FuzzOutcome {
    let t0 = Instant::now();
    let mut out = FuzzOutcome { target: target.to_string(), ..Default::default() };
    let fuzz_dir = verif_dir().join("fuzz");
    let fuzz_dir = if fuzz_dir.join("Cargo.toml").exists() { fuzz_dir } else { PathBuf::from("/verif/fuzz") };
    let corpus = fuzz_dir.join("corpus").join(format!("{}-{}-{}", prop, target, std::process::id()));
    let _ = std::fs::remove_dir_all(&corpus);
    if std::fs::create_dir_all(&corpus).is_err() {
        out.skipped_reason = Some("cannot create corpus directory".into());
        return out;
    }
    // a few random seeds of different lengths so that libFuzzer starts at full length
    for (i, len) in [64usize, 512, 2048, 6000].iter().enumerate() {
        let bytes: Vec<u8> = (0..*len as u64).map(|k| crate::gen::pattern_byte(seed as u32 ^ (i as u32 * 77), k)).collect();
        let _ = std::fs::write(corpus.join(format!("seed{}", i)), bytes);
    }
    let r = std::process::Command::new("cargo")
        .arg("+nightly")
        .arg("fuzz")
        .arg("run")
        .arg("--fuzz-dir")
        .arg(&fuzz_dir)
        .arg(target)
        .arg(&corpus)
        .arg("--")
        .arg(format!("-runs={}", runs))
        .arg(format!("-seed={}", (seed % 0xffff_fff0) + 1))
        .arg("-len_control=0")
        .arg("-max_len=8192")
        .arg("-print_final_stats=1")
        // the harness deliberately leaks a RowWriter after a refused write (C03/C04): not a finding
        .arg("-detect_leaks=0")
        .arg(format!("-artifact_prefix={}/", corpus.display()))
        .env("CARGO_NET_OFFLINE", "true")
        .env("VERIF_FUZZ_PROP", prop)
        .output();
    let _ = std::fs::remove_dir_all(&corpus);
    out.wall_s = t0.elapsed().as_secs_f64();
    let r = match r {
        Ok(r) => r,
        Err(e) => {
            out.skipped_reason = Some(format!("cannot start cargo fuzz: {}", e));
            return out;
        }
    };
    let text = format!("{}\n{}", String::from_utf8_lossy(&r.stdout), String::from_utf8_lossy(&r.stderr));
    for l in text.lines() {
        if let Some(v) = l.strip_prefix("stat::number_of_executed_units:") {
            out.executions = v.trim().parse().unwrap_or(0);
        }
        if l.contains(" cov: ") && l.contains(" corp: ") {
            let f: Vec<&str> = l.split_whitespace().collect();
            for w in f.windows(2) {
                match w[0] {
                    "cov:" => out.coverage_edges = w[1].parse().unwrap_or(out.coverage_edges),
                    "ft:" => out.features = w[1].parse().unwrap_or(out.features),
                    "corp:" => out.corpus = w[1].split('/').next().and_then(|x| x.parse().ok()).unwrap_or(out.corpus),
                    _ => {}
                }
            }
        }
        if let Some(i) = l.find("HANG-CASE property=") {
            if let Some(j) = l[i..].find("replay=") {
                let path = l[i + j + 7..].split_whitespace().next().unwrap_or("").to_string();
                // confirm in a fresh process before calling it a violation
                if confirm_hang(prop, &path) {
                    out!("  failure :: run_on does not return for the saved case (confirmed by a second run)");
                    out!("VIOLATION property={} replay={}", prop, path);
                    out.violation_replay = Some(path);
                } else {
                    out!("  note: a fuzz case exceeded the hang limit once but completed on replay (machine load?); ignored");
                }
            }
        } else if let Some(i) = l.find("VIOLATION property=") {
            if let Some(j) = l[i..].find("replay=") {
                out.violation_replay = Some(l[i + j + 7..].trim().to_string());
            }
            out!("{}", l.trim());
        } else if l.trim_start().starts_with("failure ::") {
            out!("{}", l);
        }
    }
    if out.executions > 0 || out.violation_replay.is_some() {
        out.ran = true;
        if out.violation_replay.is_none() && out.executions + 1 < runs {
            // libFuzzer stopped before the requested number of runs without our oracle reporting
            // anything (a crash inside the harness itself, a sanitizer report, ...): say so
            let tail: String = text.lines().rev().take(8).collect::<Vec<_>>().into_iter().rev().collect::<Vec<_>>().join(" | ");
            out.skipped_reason = Some(format!("stopped after {} of {} runs without an oracle verdict: {}", out.executions, runs, tail.chars().take(500).collect::<String>()));
        }
    } else {
        let tail: String = text.lines().rev().take(6).collect::<Vec<_>>().into_iter().rev().collect::<Vec<_>>().join(" | ");
        out.skipped_reason = Some(format!("campaign did not run (nightly fuzz build unavailable?): {}", tail.chars().take(400).collect::<String>()));
    }
    out
}

struct Stats {
    evaluations: AtomicU64,
    nontrivial_hashes: Mutex<HashSet<u64>>,
    classes: Mutex<BTreeMap<String, u64>>,
    notes: Mutex<BTreeMap<String, u64>>,
    known_hits: Mutex<BTreeMap<String, u64>>,
    samples: Mutex<Vec<J>>,
    trivial_sample: Mutex<Option<J>>,
}

fn hash_str(s: &str) -> u64 {
    let mut h = std::collections::hash_map::DefaultHasher::new();
    s.hash(&mut h);
    h.finish()
}

fn truncate_json(v: &J, budget: usize) -> J {
    // keep samples readable: long strings/arrays are abbreviated
    match v {
        J::String(s) if s.len() > budget => J::String(format!("{}… ({} bytes)", &s[..s.char_indices().take_while(|(i, _)| *i < budget).last().map(|(i, c)| i + c.len_utf8()).unwrap_or(0)], s.len())),
        J::Array(a) if a.len() > 24 => {
            let mut out: Vec<J> = a.iter().take(24).map(|x| truncate_json(x, budget)).collect();
            out.push(J::String(format!("… ({} items)", a.len())));
            J::Array(out)
        }
        J::Array(a) => J::Array(a.iter().map(|x| truncate_json(x, budget)).collect()),
        J::Object(o) => J::Object(o.iter().map(|(k, x)| (k.clone(), truncate_json(x, budget))).collect()),
        _ => v.clone(),
    }
}

pub fn write_failure_file(prop: &str, case_json: &str, reason: &str, tag: &str) -> PathBuf {
    let dir = verif_dir().join("failures").join(prop);
    let _ = std::fs::create_dir_all(&dir);
    let h = hash_str(case_json);
    let path = dir.join(format!("{}-{:016x}.json", tag, h));
    let case: J = serde_json::from_str(case_json).unwrap_or(J::Null);
    let doc = json!({"property": prop, "reason": reason, "case": case});
    let _ = std::fs::write(&path, serde_json::to_string_pretty(&doc).unwrap());
    path
}

pub struct RunOutcome {
    pub violations: u64,
    pub exit: i32,
}

fn seed_bytes(seed: u64, prop: &str, shard: u64) -> [u8; 32] {
    let mut out = [0u8; 32];
    let mut x = seed ^ hash_str(prop).rotate_left(17) ^ shard.wrapping_mul(0x9E37_79B9_7F4A_7C15);
    for chunk in out.chunks_mut(8) {
        // splitmix64
        x = x.wrapping_add(0x9E37_79B9_7F4A_7C15);
        let mut z = x;
        z = (z ^ (z >> 30)).wrapping_mul(0xBF58_476D_1CE4_E5B9);
        z = (z ^ (z >> 27)).wrapping_mul(0x94D0_49BB_1331_11EB);
        z ^= z >> 31;
        chunk.copy_from_slice(&z.to_le_bytes());
    }
    out
}

pub fn verif_seed() -> u64 {
    std::env::var("VERIF_SEED").ok().and_then(|s| s.trim().parse::<i64>().ok()).map(|v| v as u64).unwrap_or(1)
}

pub fn threads() -> usize {
    std::env::var("VERIF_THREADS")
        .ok()
        .and_then(|s| s.parse().ok())
        .unwrap_or_else(|| std::thread::available_parallelism().map(|n| n.get()).unwrap_or(8))
        .max(1)
}

// ------------------------------------------------------------------------------------------
// hang watchdog: a case that runs thousands of times longer than any legitimate case is stuck
// (a loop that performs no transport I/O cannot be caught by the transport's read budget)

type WatchMap = Mutex<std::collections::HashMap<std::thread::ThreadId, (Instant, String, String)>>;
static WATCH: std::sync::OnceLock<WatchMap> = std::sync::OnceLock::new();
static WATCHDOG_STARTED: AtomicBool = AtomicBool::new(false);

pub fn hang_limit_secs() -> u64 {
    std::env::var("VERIF_HANG_SECS").ok().and_then(|s| s.parse().ok()).unwrap_or(120)
}

/// `abort_on_hang`: fuzz targets abort (so libFuzzer stops); the check binary exits with code 4,
/// which ./check confirms by replaying the saved case under a timeout before calling it a violation.
pub fn start_watchdog(abort_on_hang: bool) {
    if WATCHDOG_STARTED.swap(true, Ordering::SeqCst) {
        return;
    }
    WATCH.get_or_init(|| Mutex::new(Default::default()));
    let limit = hang_limit_secs();
    std::thread::spawn(move || loop {
        std::thread::sleep(std::time::Duration::from_millis(500));
        let stuck = {
            let m = WATCH.get().unwrap().lock().unwrap();
            m.values().find(|(t, _, _)| t.elapsed().as_secs() >= limit).cloned()
        };
        if let Some((t, prop, case)) = stuck {
            let path = write_failure_file(&prop, &case, &format!("case still running after {} s (typical cases take micro- to milliseconds): run_on does not return", t.elapsed().as_secs()), "hang");
            out!("HANG-CASE property={} replay={} seconds={}", prop, path.display(), t.elapsed().as_secs());
            if abort_on_hang {
                std::process::abort();
            }
            std::process::exit(4);
        }
    });
}

fn watch_begin(prop: &str, case_json: &str) {
    if let Some(m) = WATCH.get() {
        m.lock().unwrap().insert(std::thread::current().id(), (Instant::now(), prop.to_string(), case_json.to_string()));
    }
}

fn watch_end() {
    if let Some(m) = WATCH.get() {
        m.lock().unwrap().remove(&std::thread::current().id());
    }
}

/// evaluate one case: journal, exec under catch, split failures into known / unknown
fn eval_case<P: Prop>(p: &P, case: &P::Case, known: &[Known], stats: &Stats, record: bool) -> (Vec<Failure>, bool) {
    let js = serde_json::to_string(case).expect("case serialises");
    JOURNAL.with(|j| *j.borrow_mut() = Some((p.id().to_string(), js.clone())));
    watch_begin(p.id(), &js);
    let ex = match catch(|| {
        let mut ex = p.exec(case);
        if p.canary() && ex.failures.is_empty() {
            // Nothing of one connection may leak into the next one served by the same thread
            // (thread-locals, statics, pooled buffers): a small, ordinary connection is run right
            // after the case and must come out pristine.
            if let Err(m) = crate::conv::canary() {
                ex.fail("state-leaked-into-the-next-connection", format!("after this case, an ordinary connection served by the same thread misbehaves: {}", m));
            }
        }
        ex
    }) {
        Ok(ex) => ex,
        Err(pr) => {
            // a panic that escaped the property's own capture: harness bug or library panic
            let mut ex = Exec::default();
            ex.fail(
                format!("uncaught-panic|{}", panic_signature(&pr)),
                format!("panic escaped the check at {}:{}: {}", pr.file, pr.line, pr.msg),
            );
            ex
        }
    };
    watch_end();
    JOURNAL.with(|j| *j.borrow_mut() = None);
    if !record {
        let mut unknown = Vec::new();
        for f in ex.failures {
            if !known.iter().any(|k| k.property == p.id() && k.key == f.key) {
                unknown.push(f);
            }
        }
        return (unknown, ex.nontrivial);
    }
    stats.evaluations.fetch_add(1, Ordering::Relaxed);
    {
        let mut c = stats.classes.lock().unwrap();
        for k in &ex.classes {
            *c.entry(k.clone()).or_insert(0) += 1;
        }
    }
    if !ex.notes.is_empty() || !ex.counters.is_empty() {
        let mut c = stats.notes.lock().unwrap();
        for k in &ex.notes {
            *c.entry(k.clone()).or_insert(0) += 1;
        }
        for (k, n) in &ex.counters {
            *c.entry(k.clone()).or_insert(0) += *n;
        }
    }
    let mut unknown = Vec::new();
    for f in ex.failures {
        if let Some(k) = known.iter().find(|k| k.property == p.id() && k.key == f.key) {
            *stats.known_hits.lock().unwrap().entry(k.key.clone()).or_insert(0) += 1;
        } else {
            unknown.push(f);
        }
    }
    if ex.nontrivial {
        let h = hash_str(&js);
        let fresh = stats.nontrivial_hashes.lock().unwrap().insert(h);
        if fresh {
            let mut s = stats.samples.lock().unwrap();
            if s.len() < 4 {
                s.push(truncate_json(&serde_json::from_str(&js).unwrap(), 160));
            }
        }
    } else {
        let mut t = stats.trivial_sample.lock().unwrap();
        if t.is_none() {
            *t = Some(truncate_json(&serde_json::from_str(&js).unwrap(), 160));
        }
    }
    (unknown, ex.nontrivial)
}

/// One evaluation for a fuzz target: None if the property held (known findings are tolerated),
/// else the replay file written for the failing case and the failure text.
pub fn eval_for_fuzz<P: Prop>(p: &P, case: &P::Case) -> Option<(PathBuf, String)> {
    static KNOWN: std::sync::OnceLock<Vec<Known>> = std::sync::OnceLock::new();
    let known = KNOWN.get_or_init(load_known);
    let stats = new_stats();
    let (unknown, _) = eval_case(p, case, known, &stats, false);
    if unknown.is_empty() {
        return None;
    }
    let js = serde_json::to_string(case).unwrap();
    let path = write_failure_file(p.id(), &js, &unknown[0].msg, "fuzz");
    Some((path, format!("key={} :: {}", unknown[0].key, unknown[0].msg)))
}

pub fn replay_dir(prop: &str) -> PathBuf {
    verif_dir().join("replays").join(prop)
}

fn load_case<C: DeserializeOwned>(path: &Path) -> Result<C, String> {
    let s = std::fs::read_to_string(path).map_err(|e| format!("{}: {}", path.display(), e))?;
    let doc: J = serde_json::from_str(&s).map_err(|e| format!("{}: {}", path.display(), e))?;
    let case = doc.get("case").cloned().unwrap_or(doc);
    serde_json::from_value(case).map_err(|e| format!("{}: {}", path.display(), e))
}

/// `./check Cxx replay FILE`
pub fn replay_one<P: Prop>(p: &P, path: &Path) -> i32 {
    start_watchdog(false);
    let known = load_known();
    let stats = new_stats();
    let case: P::Case = match load_case(path) {
        Ok(c) => c,
        Err(e) => {
            eprintln!("cannot load replay: {}", e);
            return 2;
        }
    };
    let (unknown, _) = eval_case(p, &case, &known, &stats, true);
    print_known_lines(p.id(), &known, &stats);
    if unknown.is_empty() {
        out!("replay {}: property {} held", path.display(), p.id());
        0
    } else {
        for f in &unknown {
            out!("  failure key={} :: {}", f.key, f.msg);
        }
        out!("VIOLATION property={} replay={}", p.id(), path.display());
        1
    }
}

fn new_stats() -> Stats {
    Stats {
        evaluations: AtomicU64::new(0),
        nontrivial_hashes: Mutex::new(HashSet::new()),
        classes: Mutex::new(BTreeMap::new()),
        notes: Mutex::new(BTreeMap::new()),
        known_hits: Mutex::new(BTreeMap::new()),
        samples: Mutex::new(Vec::new()),
        trivial_sample: Mutex::new(None),
    }
}

fn print_known_lines(prop: &str, known: &[Known], stats: &Stats) {
    let hits = stats.known_hits.lock().unwrap();
    for k in known.iter().filter(|k| k.property == prop) {
        if let Some(n) = hits.get(&k.key) {
            out!("KNOWN-FINDING: property={} {} [key={} hits={}]", prop, k.what, k.key, n);
        }
    }
}

fn rule_with_canary<P: Prop>(p: &P) -> String {
    let mut r = p.rule();
    if p.canary() {
        r.push_str(" After every case two small ordinary connections are served on the same thread: one with PING, a query answered with a text row, PREPARE + EXECUTE answered with a completion and a binary row, a query answered with an error, CLOSE, PING, QUIT, which must come out conformant and exact (values, parameter, sequence ids); and one whose client executes statement ids it never prepared (1 and the first connection's id), which must not reach the shim: nothing of one connection may leak into the next (thread-locals, statics, pooled buffers, statement tables).");
    }
    r
}

pub fn run<P: Prop>(p: &P, tier: Tier) -> i32 {
    if let Err(e) = crate::selftest::run() {
        eprintln!("INFRA: oracle self-test failed (the reference pieces disagree; not a violation): {}", e);
        return 2;
    }
    start_watchdog(false);
    let t0 = Instant::now();
    let seed = verif_seed();
    let known = load_known();
    let stats = new_stats();
    let nthreads = threads();
    let mut violations: Vec<(PathBuf, Vec<Failure>)> = Vec::new();

    // 1. committed regression inputs
    let mut replayed = 0u64;
    if let Ok(rd) = std::fs::read_dir(replay_dir(p.id())) {
        let mut files: Vec<PathBuf> = rd.filter_map(|e| e.ok()).map(|e| e.path()).filter(|p| p.extension().map(|e| e == "json").unwrap_or(false)).collect();
        files.sort();
        for f in files {
            match load_case::<P::Case>(&f) {
                Ok(case) => {
                    replayed += 1;
                    let (unknown, _) = eval_case(p, &case, &known, &stats, true);
                    if !unknown.is_empty() {
                        violations.push((f.clone(), unknown));
                    }
                }
                Err(e) => {
                    eprintln!("INFRA: cannot load regression input: {}", e);
                    return 2;
                }
            }
        }
    }

    // 2. enumerated cases, in parallel
    let fixed = p.fixed(tier);
    let n_fixed = fixed.len() as u64;
    if violations.is_empty() && !fixed.is_empty() {
        let next = AtomicU64::new(0);
        let stop = AtomicBool::new(false);
        let found: Mutex<Vec<(PathBuf, Vec<Failure>)>> = Mutex::new(Vec::new());
        std::thread::scope(|s| {
            for _ in 0..nthreads {
                s.spawn(|| loop {
                    if stop.load(Ordering::Relaxed) {
                        break;
                    }
                    let i = next.fetch_add(1, Ordering::Relaxed) as usize;
                    if i >= fixed.len() {
                        break;
                    }
                    let (unknown, _) = eval_case(p, &fixed[i], &known, &stats, true);
                    if !unknown.is_empty() {
                        let js = serde_json::to_string(&fixed[i]).unwrap();
                        let path = write_failure_file(p.id(), &js, &unknown[0].msg, "fail");
                        found.lock().unwrap().push((path, unknown));
                        stop.store(true, Ordering::Relaxed);
                    }
                });
            }
        });
        violations.extend(found.into_inner().unwrap());
    }

    // 3. random cases: one proptest runner per shard
    let total = p.cases(tier);
    if violations.is_empty() && total > 0 {
        let shards = nthreads as u64;
        let someone_failed = AtomicBool::new(false);
        let found: Mutex<Vec<(PathBuf, Vec<Failure>)>> = Mutex::new(Vec::new());
        std::thread::scope(|s| {
            for shard in 0..shards {
                let stats = &stats;
                let known = &known;
                let someone_failed = &someone_failed;
                let found = &found;
                s.spawn(move || {
                    let n = total / shards + if shard < total % shards { 1 } else { 0 };
                    if n == 0 {
                        return;
                    }
                    let mut cfg = Config::default();
                    cfg.cases = n as u32;
                    cfg.failure_persistence = None;
                    cfg.max_shrink_iters = 3000;
                    cfg.max_shrink_time = 0;
                    cfg.verbose = 0;
                    cfg.source_file = None;
                    cfg.max_global_rejects = 0;
                    let rng = TestRng::from_seed(RngAlgorithm::ChaCha, &seed_bytes(seed, p.id(), shard));
                    let mut runner = TestRunner::new_with_rng(cfg, rng);
                    let failed_here = Cell::new(false);
                    let last_fail: RefCell<Vec<Failure>> = RefCell::new(Vec::new());
                    let strat = ChoiceStrategy { len: p.choice_len() };
                    let res = runner.run(&strat, |choices| {
                        if someone_failed.load(Ordering::Relaxed) && !failed_here.get() {
                            return Ok(()); // another shard is shrinking a failure: stop exploring
                        }
                        let mut g = G::new(&choices);
                        let case = match catch(|| p.gen(&mut g, tier)) {
                            Ok(c) => c,
                            Err(pr) => {
                                eprintln!("INFRA: generator panicked (harness bug, not a violation): {}:{}: {}", pr.file, pr.line, pr.msg);
                                std::process::exit(2);
                            }
                        };
                        g.finish();
                        // shrink re-runs are not new evaluations
                        let (unknown, _) = eval_case(p, &case, known, stats, !failed_here.get());
                        if unknown.is_empty() {
                            Ok(())
                        } else {
                            failed_here.set(true);
                            someone_failed.store(true, Ordering::Relaxed);
                            let msg = unknown[0].msg.clone();
                            *last_fail.borrow_mut() = unknown;
                            Err(TestCaseError::fail(msg))
                        }
                    });
                    if let Err(TestError::Fail(_reason, choices)) = res {
                        let mut g = G::new(&choices);
                        let case = p.gen(&mut g, tier);
                        // re-evaluate the minimal case to report its own failure text
                        let (unknown, _) = eval_case(p, &case, known, stats, false);
                        let fails = if unknown.is_empty() { last_fail.borrow().clone() } else { unknown };
                        let js = serde_json::to_string(&case).unwrap();
                        let path = write_failure_file(p.id(), &js, &fails.get(0).map(|f| f.msg.clone()).unwrap_or_default(), "fail");
                        found.lock().unwrap().push((path, fails));
                    } else if let Err(TestError::Abort(r)) = res {
                        eprintln!("INFRA: proptest aborted: {}", r);
                    }
                });
            }
        });
        violations.extend(found.into_inner().unwrap());
    }

    // 4. coverage-guided campaigns (thorough tier)
    let mut fuzz_reports: Vec<J> = Vec::new();
    let mut fuzz_execs = 0u64;
    if violations.is_empty() {
        for (target, runs) in p.fuzz_plan(tier) {
            let fo = run_fuzz_campaign(p.id(), target, runs, seed);
            fuzz_execs += fo.executions;
            if let Some(rp) = &fo.violation_replay {
                violations.push((PathBuf::from(rp), vec![Failure { key: "fuzz-campaign".into(), msg: format!("libFuzzer campaign `{}` found a failing case", target) }]));
            }
            fuzz_reports.push(json!({
                "target": fo.target, "ran": fo.ran, "skipped_reason": fo.skipped_reason, "executions": fo.executions,
                "coverage_edges": fo.coverage_edges, "features": fo.features, "corpus_size": fo.corpus, "wall_s": fo.wall_s,
                "runs_requested": runs,
            }));
        }
    }

    let wall = t0.elapsed().as_secs_f64();
    // evidence
    let evaluations = stats.evaluations.load(Ordering::Relaxed);
    let distinct = stats.nontrivial_hashes.lock().unwrap().len() as u64;
    let mut samples = stats.samples.lock().unwrap().clone();
    if let Some(t) = stats.trivial_sample.lock().unwrap().clone() {
        samples.push(json!({"trivial_case": t}));
    }
    let classes: BTreeMap<String, u64> = stats.classes.lock().unwrap().clone();
    let notes: BTreeMap<String, u64> = stats.notes.lock().unwrap().clone();
    let known_hits: BTreeMap<String, u64> = stats.known_hits.lock().unwrap().clone();
    let mut coverage = json!({
        "evaluations": evaluations,
        "distinct_nontrivial": distinct,
        "rule": rule_with_canary(p),
        "samples": samples,
        "regression_inputs_replayed": replayed,
        "enumerated_cases": n_fixed,
        "random_cases_requested": total,
        "class_histogram": classes,
        "counters_and_tolerated_observations": notes,
        "known_finding_hits": known_hits,
        "threads": nthreads,
        "fuzz_campaigns": fuzz_reports,
        "fuzz_executions": fuzz_execs,
    });
    if let Some(note) = p.exhaustive_note(tier) {
        coverage["exhaustive"] = J::Bool(true);
        coverage["exhaustive_over"] = J::String(note);
    }
    if let J::Object(extra) = p.extra() {
        for (k, v) in extra {
            coverage[k] = v;
        }
    }
    let ev = json!({
        "property_id": p.id(),
        "tier": tier.name(),
        "seed": seed as i64,
        "level": p.level(),
        "coverage": coverage,
        "assumptions": p.assumptions(),
        "wall_s": wall,
        "violations": violations.len(),
    });
    let evdir = verif_dir().join("evidence");
    let _ = std::fs::create_dir_all(&evdir);
    if let Err(e) = std::fs::write(evdir.join(format!("{}.json", p.id())), serde_json::to_string_pretty(&ev).unwrap()) {
        eprintln!("INFRA: cannot write evidence: {}", e);
        return 2;
    }

    print_known_lines(p.id(), &known, &stats);
    out!(
        "{} {}: evaluations={} distinct_nontrivial={} regression_inputs={} enumerated={} wall={:.1}s",
        p.id(),
        tier.name(),
        evaluations,
        distinct,
        replayed,
        n_fixed,
        wall
    );
    if violations.is_empty() {
        0
    } else {
        if violations.len() > 3 {
            out!("  ({} failing cases; showing 3)", violations.len());
            let mut keys: Vec<&str> = violations.iter().flat_map(|(_, f)| f.iter().map(|x| x.key.as_str())).collect();
            keys.sort();
            keys.dedup();
            for k in keys.iter().take(30) {
                out!("  distinct failure key: {}", k);
            }
        }
        for (path, fails) in violations.iter().take(3) {
            for f in fails.iter().take(3) {
                out!("  failure key={} :: {}", f.key, f.msg);
            }
            out!("VIOLATION property={} replay={}", p.id(), path.display());
        }
        1
    }
}
