//! vcheck <Cxx> <quick|thorough|replay FILE>


use vcheck::engine::{self, Prop, Tier};
use vcheck::props;
use std::path::Path;

fn dispatch<P: Prop>(p: P, mode: &str, arg: Option<&str>) -> i32 {
    match mode {
        "quick" => engine::run(&p, Tier::Quick),
        "thorough" => engine::run(&p, Tier::Thorough),
        "replay" => match arg {
            Some(f) => engine::replay_one(&p, Path::new(f)),
            None => {
                eprintln!("replay needs a file");
                2
            }
        },
        _ => {
            eprintln!("unknown mode {}", mode);
            2
        }
    }
}

fn main() {
    let args: Vec<String> = std::env::args().collect();
    if args.len() < 3 {
        eprintln!("usage: vcheck <Cxx> <quick|thorough|replay FILE>");
        std::process::exit(2);
    }
    engine::install_panic_hook();
    engine::silence_library_stdout();
    let prop = args[1].as_str();
    let mode = args[2].as_str();
    let arg = args.get(3).map(|s| s.as_str());
    if prop == "C13" && mode == "dump-snapshot" {
        props::c13::dump_snapshot();
        return;
    }
    let code = match prop {
        "C01" => dispatch(props::c01::C01, mode, arg),
        "C02" => dispatch(props::c02::C02, mode, arg),
        "C03" => dispatch(props::c03::C03, mode, arg),
        "C04" => dispatch(props::c04::C04, mode, arg),
        "C05" => dispatch(props::c05::C05, mode, arg),
        "C06" => dispatch(props::c06::C06, mode, arg),
        "C07" => dispatch(props::c07::C07, mode, arg),
        "C08" => dispatch(props::c08::C08, mode, arg),
        "C09" => dispatch(props::c09::C09, mode, arg),
        "C10" => dispatch(props::c10::C10, mode, arg),
        "C11" => dispatch(props::c11::C11, mode, arg),
        "C12" => dispatch(props::c12::C12, mode, arg),
        "C13" => dispatch(props::c13::C13, mode, arg),
        "C14" => dispatch(props::c14::C14, mode, arg),
        "C15" => dispatch(props::c15::C15, mode, arg),
        "C18" => dispatch(props::c18::C18, mode, arg),
        "C19" => dispatch(props::c19::C19, mode, arg),
        "C20" => dispatch(props::c20::C20, mode, arg),
        "C16" => dispatch(props::c16::C16, mode, arg),
        "C17" => dispatch(props::c17::C17, mode, arg),
        _ => {
            eprintln!("unknown property {}", prop);
            2
        }
    };
    std::process::exit(code);
}
