//! Conversations: a scripted client byte stream + shim programs, run against the real
//! `MysqlIntermediary::run_on`, and decoding of what came back.

use crate::engine::{self, PanicRec};
use crate::gen::pattern_byte;
use crate::shim::*;
use crate::transport::*;
use crate::wire::*;
use msql_srv::MysqlIntermediary;
use serde::{Deserialize, Serialize};
use std::cell::RefCell;
use std::rc::Rc;

#[derive(Clone, Debug, PartialEq, Serialize, Deserialize)]
pub enum Blob {
    Lit(Vec<u8>),
    /// `len` bytes of a position-dependent binary pattern
    Pat { seed: u32, len: usize },
    /// `len` bytes of a position-dependent printable-ASCII pattern (valid UTF-8)
    Text { seed: u32, len: usize },
}

impl Blob {
    pub fn len(&self) -> usize {
        match self {
            Blob::Lit(v) => v.len(),
            Blob::Pat { len, .. } | Blob::Text { len, .. } => *len,
        }
    }
    pub fn append_to(&self, out: &mut Vec<u8>) {
        match self {
            Blob::Lit(v) => out.extend_from_slice(v),
            Blob::Pat { seed, len } => {
                out.reserve(*len);
                for i in 0..*len as u64 {
                    out.push(pattern_byte(*seed, i));
                }
            }
            Blob::Text { seed, len } => {
                out.reserve(*len);
                for i in 0..*len as u64 {
                    out.push(b' ' + 1 + pattern_byte(*seed, i) % 90);
                }
            }
        }
    }
    pub fn bytes(&self) -> Vec<u8> {
        let mut v = Vec::new();
        self.append_to(&mut v);
        v
    }
    pub fn text(s: &str) -> Blob {
        Blob::Lit(s.as_bytes().to_vec())
    }
}

#[derive(Clone, Debug, PartialEq, Serialize, Deserialize)]
pub enum Cmd {
    Query { text: Blob },
    Prepare { text: Blob },
    InitDb { name: Blob },
    FieldList { arg: Vec<u8> },
    Ping,
    Quit,
    Close { id: u32 },
    LongData { id: u32, param: u16, data: Blob },
    Execute { id: u32, params: Vec<Param>, send_types: bool, flags: u8, iterations: u32 },
    /// arbitrary payload (C20)
    Raw { payload: Vec<u8> },
}

impl Cmd {
    pub fn payload(&self) -> Vec<u8> {
        match self {
            Cmd::Query { text } => {
                let mut p = vec![COM_QUERY];
                text.append_to(&mut p);
                p
            }
            Cmd::Prepare { text } => {
                let mut p = vec![COM_STMT_PREPARE];
                text.append_to(&mut p);
                p
            }
            Cmd::InitDb { name } => {
                let mut p = vec![COM_INIT_DB];
                name.append_to(&mut p);
                p
            }
            Cmd::FieldList { arg } => com_simple(COM_FIELD_LIST, arg),
            Cmd::Ping => vec![COM_PING],
            Cmd::Quit => vec![COM_QUIT],
            Cmd::Close { id } => com_close(*id),
            Cmd::LongData { id, param, data } => {
                let mut p = com_long_data(*id, *param, &[]);
                data.append_to(&mut p);
                p
            }
            Cmd::Execute { id, params, send_types, flags, iterations } => com_execute(*id, *flags, *iterations, params, *send_types),
            Cmd::Raw { payload } => payload.clone(),
        }
    }
    /// length of the packet payload without materialising it
    pub fn payload_len_hint(&self) -> usize {
        match self {
            Cmd::Query { text } | Cmd::Prepare { text } => 1 + text.len(),
            Cmd::InitDb { name } => 1 + name.len(),
            Cmd::LongData { data, .. } => 7 + data.len(),
            other => other.payload().len(),
        }
    }
    pub fn reply_kind(&self) -> ReplyKind {
        match self {
            Cmd::Query { .. } => ReplyKind::Query,
            Cmd::Prepare { .. } => ReplyKind::Prepare,
            Cmd::InitDb { .. } | Cmd::Ping => ReplyKind::OkOrErr,
            Cmd::FieldList { .. } => ReplyKind::FieldList,
            Cmd::Quit | Cmd::Close { .. } | Cmd::LongData { .. } => ReplyKind::None,
            Cmd::Execute { .. } => ReplyKind::Execute,
            Cmd::Raw { .. } => ReplyKind::None,
        }
    }
    pub fn name(&self) -> &'static str {
        match self {
            Cmd::Query { .. } => "query",
            Cmd::Prepare { .. } => "prepare",
            Cmd::InitDb { .. } => "init_db",
            Cmd::FieldList { .. } => "field_list",
            Cmd::Ping => "ping",
            Cmd::Quit => "quit",
            Cmd::Close { .. } => "close",
            Cmd::LongData { .. } => "long_data",
            Cmd::Execute { .. } => "execute",
            Cmd::Raw { .. } => "raw",
        }
    }
}

#[derive(Clone, Debug, PartialEq, Serialize, Deserialize)]
pub enum HsKind {
    V41 { caps: u32, max_packet: u32, charset: u8, user: Vec<u8>, tail: Vec<u8> },
    V320 { caps: u16, max_packet: u32, user: Vec<u8>, tail: Vec<u8> },
    Raw(Vec<u8>),
}

#[derive(Clone, Debug, PartialEq, Serialize, Deserialize)]
pub struct Handshake {
    pub kind: HsKind,
    pub seq: u8,
    /// extra non-NUL pattern bytes appended to the user name (kept symbolic: long names)
    #[serde(default)]
    pub user_pad: usize,
    /// extra pattern bytes appended after the trailing auth/db/plugin data
    #[serde(default)]
    pub tail_pad: usize,
    /// 4.1 layout: the 23 reserved bytes after the character set, when not all zero (MariaDB
    /// clients put their extended capabilities in the last four); shorter = zero-padded in front
    #[serde(default)]
    pub reserved: Vec<u8>,
}

impl Handshake {
    pub fn default_user(user: &str) -> Handshake {
        Handshake {
            kind: HsKind::V41 {
                caps: CAP_LONG_PASSWORD | CAP_PROTOCOL_41 | CAP_TRANSACTIONS | CAP_SECURE_CONNECTION | CAP_MULTI_RESULTS | CAP_PS_MULTI_RESULTS,
                max_packet: 1 << 24,
                charset: 0x21,
                user: user.as_bytes().to_vec(),
                tail: vec![0],
            },
            seq: 1,
            user_pad: 0,
            tail_pad: 0,
            reserved: vec![],
        }
    }
    /// the 23 reserved bytes of the 4.1 layout
    pub fn reserved23(&self) -> [u8; 23] {
        let mut r = [0u8; 23];
        let n = self.reserved.len().min(23);
        r[23 - n..].copy_from_slice(&self.reserved[self.reserved.len() - n..]);
        r
    }
    fn padded(&self, user: &[u8], tail: &[u8]) -> (Vec<u8>, Vec<u8>) {
        let mut u = user.to_vec();
        u.extend((0..self.user_pad as u64).map(|i| 1 + pattern_byte(77, i) % 255));
        let mut t = tail.to_vec();
        t.extend((0..self.tail_pad as u64).map(|i| pattern_byte(78, i)));
        (u, t)
    }
    pub fn payload(&self) -> Vec<u8> {
        match &self.kind {
            HsKind::V41 { caps, max_packet, charset, user, tail } => {
                let (u, t) = self.padded(user, tail);
                let mut p = handshake41(*caps, *max_packet, *charset, &u, &t);
                p[9..32].copy_from_slice(&self.reserved23());
                p
            }
            HsKind::V320 { caps, max_packet, user, tail } => {
                let (u, t) = self.padded(user, tail);
                handshake320(*caps, *max_packet, &u, &t)
            }
            HsKind::Raw(p) => p.clone(),
        }
    }
    /// the user name as sent (incl. padding)
    pub fn user(&self) -> Option<Vec<u8>> {
        match &self.kind {
            HsKind::V41 { user, tail, .. } | HsKind::V320 { user, tail, .. } => Some(self.padded(user, tail).0),
            HsKind::Raw(_) => None,
        }
    }
}

#[derive(Clone, Debug, PartialEq, Serialize, Deserialize)]
pub struct SeqCmd {
    pub cmd: Cmd,
    /// sequence id of the first packet of the request
    pub seq: u8,
}

#[derive(Clone, Debug, PartialEq, Serialize, Deserialize)]
pub struct Conversation {
    pub hs: Handshake,
    pub cmds: Vec<SeqCmd>,
    /// consumed in order by the shim callbacks that need one
    pub actions: Vec<Action>,
    pub default_init: bool,
    pub reject_auth: Option<u32>,
    pub fail_at: Option<(usize, u32)>,
    pub sched: Schedule,
    pub fault: Fault,
    pub lockstep: bool,
    /// shim in auto mode (no scripted actions); prepares hand out these (id, nparams), None = reject
    #[serde(default)]
    pub auto_ids: Option<Vec<Option<(u32, usize)>>>,
    /// auto mode: per query/execute callback (in order), answer with this error kind instead of
    /// completed(0, 0)
    #[serde(default)]
    pub auto_errs: Vec<Option<u16>>,
    /// the shim leaks, rather than drops, a RowWriter whose row-level call was refused
    #[serde(default)]
    pub forget_on_refusal: bool,
    /// per execution, in order: how many parameters the shim pulls from the iterator (None = all)
    #[serde(default)]
    pub param_takes: Vec<Option<usize>>,
    /// per result program, in order: Some(tag) = after the program the callback returns Err(tag)
    #[serde(default)]
    pub then_fail: Vec<Option<u32>>,
    /// io::ErrorKind used for injected faults: 0 ConnectionReset, 1 UnexpectedEof, 2 Other, 3 BrokenPipe, 4 TimedOut
    #[serde(default)]
    pub fault_kind: u8,
}

impl Conversation {
    pub fn new(cmds: Vec<Cmd>, actions: Vec<Action>) -> Conversation {
        Conversation {
            hs: Handshake::default_user("verif"),
            cmds: cmds.into_iter().map(|cmd| SeqCmd { cmd, seq: 0 }).collect(),
            actions,
            default_init: false,
            reject_auth: None,
            fail_at: None,
            sched: Schedule::all_at_once(),
            fault: Fault::None,
            lockstep: false,
            auto_ids: None,
            auto_errs: vec![],
            forget_on_refusal: false,
            param_takes: vec![],
            then_fail: vec![],
            fault_kind: 0,
        }
    }
}

#[derive(Debug, Clone)]
pub enum RunResult {
    Ok,
    ErrIo { kind: String, msg: String },
    ErrTagged(u32),
    Panic(PanicRec),
}

impl RunResult {
    pub fn brief(&self) -> String {
        match self {
            RunResult::Ok => "Ok".into(),
            RunResult::ErrIo { kind, msg } => format!("Err(io {} {:?})", kind, msg.chars().take(80).collect::<String>()),
            RunResult::ErrTagged(t) => format!("Err(shim tagged {})", t),
            RunResult::Panic(p) => format!("PANIC at {}:{}: {}", engine::rel_file(&p.file), p.line, p.msg.chars().take(120).collect::<String>()),
        }
    }
    pub fn is_ok(&self) -> bool {
        matches!(self, RunResult::Ok)
    }
    pub fn is_err(&self) -> bool {
        matches!(self, RunResult::ErrIo { .. } | RunResult::ErrTagged(_))
    }
    pub fn is_panic(&self) -> bool {
        matches!(self, RunResult::Panic(_))
    }
    pub fn is_wedge(&self) -> bool {
        matches!(self, RunResult::Panic(p) if p.msg.contains(WEDGE_MARKER))
    }
}

pub struct Outcome {
    pub result: RunResult,
    pub events: Vec<Event>,
    pub event_ops: Vec<usize>,
    pub calls: Vec<WriterCall>,
    pub mismatches: Vec<String>,
    /// refusable offers (RowProg::offers) the library accepted / refused
    pub offers_accepted: Vec<String>,
    pub offers_refused: usize,
    pub failed_after_refused_offer: bool,
    pub leftover_actions: usize,
    pub out: Vec<u8>,
    pub flushed: usize,
    pub ops: Vec<Op>,
    pub n_ops: usize,
    pub consumed: usize,
    pub inbound_len: usize,
    pub would_block: bool,
    pub eof_seen: bool,
    pub fault_fired_at_op: Option<usize>,
    /// inbound offsets at which each client message (handshake, then commands) ends
    pub msg_ends: Vec<usize>,
}

/// Build the client byte stream; returns (bytes, end offset of each message, last seq of each)
pub fn client_stream(c: &Conversation) -> (Vec<u8>, Vec<usize>, Vec<u8>) {
    let mut bytes = Vec::new();
    let mut ends = Vec::new();
    let mut last_seqs = Vec::new();
    let last = frame_into(&mut bytes, &c.hs.payload(), c.hs.seq);
    ends.push(bytes.len());
    last_seqs.push(last);
    for sc in &c.cmds {
        let p = sc.cmd.payload();
        let last = frame_into(&mut bytes, &p, sc.seq);
        ends.push(bytes.len());
        last_seqs.push(last);
    }
    (bytes, ends, last_seqs)
}

/// Lock-step gate: message i+1 is released only when the replies to messages 0..=i have been
/// decoded from flushed bytes.
struct LockstepGate {
    kinds: Vec<ReplyKind>, // per client message (handshake = OkOrErr)
    ends: Vec<usize>,
}

impl Gate for LockstepGate {
    fn released(&mut self, flushed: &[u8]) -> usize {
        match complete_replies(flushed, &self.kinds) {
            // greeting not flushed yet: a client sends nothing before it has seen it
            None => 0,
            // replies to messages 0..n are complete (no-reply messages count as replied), so the
            // client has sent message n as well
            Some(n) => self.ends[n.min(self.ends.len() - 1)],
        }
    }
}

/// How many of the client's messages (in order) have a complete reply in `flushed`?
/// `None` if not even the greeting is complete.  Messages of kind `None` count as replied once
/// everything before them is.
pub fn complete_replies(flushed: &[u8], kinds: &[ReplyKind]) -> Option<usize> {
    let (phys, _) = split_packets(flushed);
    let (msgs, _) = reassemble(flushed, &phys);
    if msgs.is_empty() {
        return None;
    }
    let mut at = 1;
    let mut n = 0;
    for &k in kinds {
        match read_response(&msgs, at, k) {
            Ok(r) => {
                at += r.n_msgs;
                n += 1;
            }
            Err(_) => break,
        }
    }
    Some(n)
}

pub fn run(c: &Conversation) -> Outcome {
    run_with(c, None, true)
}

/// run the shim configuration of `c` over a prepared transport (the client bytes are whatever
/// the transport holds)
pub fn run_raw(c: &Conversation, tr: Transport) -> Outcome {
    run_raw_tls(c, tr, None)
}

pub fn run_raw_tls(c: &Conversation, tr: Transport, tls: Option<std::sync::Arc<rustls::ServerConfig>>) -> Outcome {
    let inbound_len = tr.0.borrow().inbound.len();
    run_inner(c, tls, false, tr, inbound_len, vec![inbound_len])
}

pub fn run_with(c: &Conversation, tls: Option<std::sync::Arc<rustls::ServerConfig>>, convert_params: bool) -> Outcome {
    let (bytes, ends, _) = client_stream(c);
    let inbound_len = bytes.len();
    let tr = Transport::new(bytes, c.sched.clone(), c.fault.clone());
    tr.0.borrow_mut().fault_kind = c.fault_kind;
    if c.lockstep {
        let mut kinds = vec![ReplyKind::OkOrErr];
        kinds.extend(c.cmds.iter().map(|sc| sc.cmd.reply_kind()));
        tr.0.borrow_mut().gate = Some(Box::new(LockstepGate { kinds, ends: ends.clone() }));
    }
    run_inner(c, tls, convert_params, tr, inbound_len, ends)
}

fn run_inner(c: &Conversation, tls: Option<std::sync::Arc<rustls::ServerConfig>>, convert_params: bool, tr: Transport, inbound_len: usize, ends: Vec<usize>) -> Outcome {
    let st = Rc::new(RefCell::new(ShimState {
        actions: c.actions.iter().cloned().collect(),
        fail_at: c.fail_at,
        reject_auth: c.reject_auth,
        tls,
        convert_params,
        auto: c.auto_ids.is_some(),
        forget_on_refusal: c.forget_on_refusal,
        param_takes: c.param_takes.iter().cloned().collect(),
        then_fail: c.then_fail.iter().cloned().collect(),
        auto_ids: c.auto_ids.clone().unwrap_or_default().into_iter().collect(),
        auto_errs: c.auto_errs.iter().cloned().collect(),
        ..Default::default()
    }));
    let shim = Shim::new(st.clone(), Some(tr.0.clone()));
    let tr2 = tr.clone();
    let default_init = c.default_init;
    let r = engine::catch(move || {
        if default_init {
            MysqlIntermediary::run_on(ShimDefaultInit(shim), tr2)
        } else {
            MysqlIntermediary::run_on(shim, tr2)
        }
    });
    let result = match r {
        Ok(Ok(())) => RunResult::Ok,
        Ok(Err(ShimError::Io(e))) => RunResult::ErrIo { kind: format!("{:?}", e.kind()), msg: e.to_string() },
        Ok(Err(ShimError::Tagged(t))) => RunResult::ErrTagged(t),
        Err(p) => RunResult::Panic(p),
    };
    let mut t = tr.0.borrow_mut();
    // let a live peer see what was flushed after the server's last read
    if let Some(mut p) = t.peer.take() {
        let rest = t.out[t.peer_fed..t.flushed].to_vec();
        t.peer_fed = t.flushed;
        let _ = p.exchange(&rest);
    }
    let mut s = st.borrow_mut();
    Outcome {
        result,
        events: std::mem::take(&mut s.events),
        event_ops: std::mem::take(&mut s.event_ops),
        calls: std::mem::take(&mut s.calls),
        mismatches: std::mem::take(&mut s.mismatches),
        offers_accepted: std::mem::take(&mut s.offers_accepted),
        offers_refused: s.offers_refused,
        failed_after_refused_offer: s.failed_after_refused_offer,
        leftover_actions: s.actions.len(),
        out: std::mem::take(&mut t.out),
        flushed: t.flushed,
        ops: std::mem::take(&mut t.ops),
        n_ops: t.n_ops,
        consumed: t.pos,
        inbound_len,
        would_block: t.would_block,
        eof_seen: t.eof_seen,
        fault_fired_at_op: t.fault_fired_at_op,
        msg_ends: ends,
    }
}

/// Everything the client-side decoder makes of the server's output.
pub struct Decoded {
    pub phys: Vec<Phys>,
    pub msgs: Vec<Msg>,
    pub greeting: Option<Greeting>,
    /// reply to the handshake response
    pub auth: Option<Response>,
    /// one per command, in order (None-kind commands get an empty response)
    pub replies: Vec<Response>,
    /// first problem found, with the index of the command (or "greeting"/"auth") it belongs to
    pub problem: Option<String>,
    /// logical messages left over after the last expected reply
    pub stray_msgs: usize,
    /// bytes at the end of the stream that do not form a whole packet
    pub trailing_bytes: usize,
    /// `problem` is only "the output ends early" (a prefix of a conformant stream), not a malformed packet
    pub truncated_only: bool,
}

pub fn decode_output(out: &[u8], kinds: &[ReplyKind]) -> Decoded {
    let (phys, used) = split_packets(out);
    let (msgs, used_phys) = reassemble(out, &phys);
    let mut d = Decoded {
        trailing_bytes: out.len() - used,
        phys,
        msgs,
        greeting: None,
        auth: None,
        replies: Vec::new(),
        problem: None,
        stray_msgs: 0,
        truncated_only: false,
    };
    if used_phys != d.phys.len() {
        // the stream stops inside a long message: a truncation, not a malformation
        d.problem = Some(format!("{} trailing 0xFFFFFF-byte fragments without a terminating packet", d.phys.len() - used_phys));
        d.truncated_only = true;
    }
    if d.msgs.is_empty() {
        if d.problem.is_none() {
            d.truncated_only = true;
        }
        d.problem.get_or_insert("no greeting".into());
        return d;
    }
    match parse_greeting(&d.msgs[0].payload) {
        Ok(g) => d.greeting = Some(g),
        Err(e) => {
            d.problem = Some(format!("greeting: {}", e));
            d.truncated_only = false;
            return d;
        }
    }
    let mut at = 1;
    match read_response(&d.msgs, at, ReplyKind::OkOrErr) {
        Ok(r) => {
            at += r.n_msgs;
            d.auth = Some(r);
        }
        Err(Need::More) => {
            if d.problem.is_none() {
                d.truncated_only = true;
            }
            d.problem.get_or_insert("auth reply: missing".into());
            return d;
        }
        Err(Need::Bad(e)) => {
            d.problem = Some(format!("auth reply: {}", e));
            d.truncated_only = false;
            return d;
        }
    }
    for (i, &k) in kinds.iter().enumerate() {
        match read_response(&d.msgs, at, k) {
            Ok(r) => {
                at += r.n_msgs;
                d.replies.push(r);
            }
            Err(Need::More) => {
                if d.problem.is_none() {
                    d.truncated_only = true;
                }
                d.problem.get_or_insert(format!("reply to command {}: incomplete or missing (output ends)", i));
                break;
            }
            Err(Need::Bad(e)) => {
                d.problem = Some(format!("reply to command {}: {}", i, e));
                d.truncated_only = false;
                break;
            }
        }
    }
    d.stray_msgs = d.msgs.len().saturating_sub(at);
    d
}

impl Decoded {
    /// sequence ids of the physical packets of a response
    pub fn seqs_of(&self, r: &Response) -> Vec<u8> {
        let mut v = Vec::new();
        for m in &self.msgs[r.first_msg..r.first_msg + r.n_msgs] {
            for p in &self.phys[m.first_phys..m.first_phys + m.n_phys] {
                v.push(p.seq);
            }
        }
        v
    }
}

/// C05's oracle, usable on any decoded conversation: the greeting has id 0, and within each
/// exchange the server's packets carry consecutive ids (mod 256) starting one above the id of
/// the last packet of the client's request.
pub fn check_sequence_ids(c: &Conversation, d: &Decoded) -> Result<(), String> {
    let (_, _, last_seqs) = client_stream_meta(c);
    if let Some(m) = d.msgs.first() {
        let seqs: Vec<u8> = d.phys[m.first_phys..m.first_phys + m.n_phys].iter().map(|p| p.seq).collect();
        if seqs.first() != Some(&0) {
            return Err(format!("greeting carries sequence id {:?}, not 0", seqs.first()));
        }
    }
    let check = |what: String, r: &Response, last_req: u8| -> Result<(), String> {
        let seqs = d.seqs_of(r);
        for (i, s) in seqs.iter().enumerate() {
            let want = last_req.wrapping_add(1).wrapping_add(i as u8);
            if *s != want {
                return Err(format!(
                    "{}: packet {} of {} carries sequence id {}, expected {} (request's last id {})",
                    what,
                    i,
                    seqs.len(),
                    s,
                    want,
                    last_req
                ));
            }
        }
        Ok(())
    };
    if let Some(a) = &d.auth {
        check("auth reply".into(), a, last_seqs[0])?;
    }
    for (i, r) in d.replies.iter().enumerate() {
        check(format!("reply to command {} ({})", i, c.cmds[i].cmd.name()), r, last_seqs[i + 1])?;
    }
    Ok(())
}

/// like `client_stream` but without materialising payloads: (total len, ends, last seqs)
pub fn client_stream_meta(c: &Conversation) -> (usize, Vec<usize>, Vec<u8>) {
    let mut total = 0usize;
    let mut ends = Vec::new();
    let mut last = Vec::new();
    let mut add = |plen: usize, seq: u8| {
        let n = frame_count(plen);
        total += plen + 4 * n;
        ends.push(total);
        last.push(seq.wrapping_add((n - 1) as u8));
    };
    add(c.hs.payload().len(), c.hs.seq);
    for sc in &c.cmds {
        add(sc.cmd.payload_len_hint(), sc.seq);
    }
    (total, ends, last)
}


/// A small, ordinary connection (handshake, PING, a query answered with one text row of an
/// integer, a string and a NULL, PING, QUIT) run on the calling thread; `Err` describes what a
/// conformant client would find wrong with it.  Used right after a case to see whether that case
/// left anything behind on the thread (see `engine::eval_case`).
pub fn canary() -> Result<(), String> {
    use crate::model::{check_reply, expectations};
    use crate::vals::{Base, ColSpec, Val, Wrap};
    let cols = vec![ColSpec::simple("n", T_LONGLONG, 0), ColSpec::simple("s", T_VAR_STRING, 0), ColSpec::simple("z", T_LONG, 0)];
    let row = RowProg { cells: vec![Val::plain(Base::I64(-1234567890123)), Val::plain(Base::StrRef("canary".into())), Val { base: Base::I32(0), wrap: Wrap::None }], form: RowForm::Cols, offers: vec![] };
    let prog = Program { steps: vec![Step::Set { cols: cols.clone(), rows: vec![row.clone()], end: SetEnd::Finish }] };
    let bin_prog = Program { steps: vec![Step::CompleteOne { rows: 3, id: 4 }, Step::Set { cols, rows: vec![row], end: SetEnd::Finish }] };
    const OWN_ID: u32 = 424_242;
    let conv = Conversation::new(
        vec![
            Cmd::Ping,
            Cmd::Query { text: Blob::text("SELECT canary") },
            Cmd::Prepare { text: Blob::text("canary ?") },
            Cmd::Execute { id: OWN_ID, params: vec![Param { coltype: T_VAR_STRING, unsigned: false, value: PVal::Bytes(b"bound".to_vec()) }], send_types: true, flags: 0, iterations: 1 },
            Cmd::Query { text: Blob::text("canary error") },
            Cmd::Close { id: OWN_ID },
            Cmd::Ping,
            Cmd::Quit,
        ],
        vec![
            Action::Result(prog),
            Action::Prepare(PrepProg::Reply { id: OWN_ID, params: vec![ColSpec::simple("p", T_VAR_STRING, 0)], cols: vec![] }),
            Action::Result(bin_prog),
            Action::Result(Program { steps: vec![Step::Error { kind: 1064, msg: b"canary says no".to_vec() }] }),
        ],
    );
    let o = run_with(&conv, None, false);
    if !o.result.is_ok() {
        return Err(format!("run_on returned {}", o.result.brief()));
    }
    if !o.mismatches.is_empty() || o.leftover_actions != 0 {
        return Err(format!("its callbacks do not match what the client sent: {:?}, {} unused", o.mismatches, o.leftover_actions));
    }
    match o.events.iter().find_map(|e| if let Event::Execute { id, params } = e { Some((*id, params)) } else { None }) {
        Some((OWN_ID, ps)) if ps.len() == 1 && ps[0].coltype == T_VAR_STRING && matches!(&ps[0].inner, Inner::Bytes(b) if b == b"bound") => {}
        other => return Err(format!("its execution reached the shim as {:?}", other.map(|(id, ps)| (id, ps.len())))),
    }
    // ... and one more, whose client executes statements it never prepared: ids that the case's
    // connection may have had open (1 is the usual one) are nobody's on a new connection
    let stale = Conversation::new(
        vec![
            Cmd::Execute { id: 1, params: vec![], send_types: false, flags: 0, iterations: 1 },
            Cmd::Execute { id: OWN_ID, params: vec![], send_types: false, flags: 0, iterations: 1 },
        ],
        vec![],
    );
    let mut stale = stale;
    stale.auto_ids = Some(vec![]);
    let so = run_with(&stale, None, false);
    if so.result.is_panic() {
        return Err(format!("executing a never-prepared statement: run_on returned {}", so.result.brief()));
    }
    if let Some(e) = so.events.iter().find(|e| matches!(e, Event::Execute { .. })) {
        return Err(format!("a statement that was never prepared on this connection was executed: {}", e.brief()));
    }
    let kinds: Vec<ReplyKind> = conv.cmds.iter().map(|sc| sc.cmd.reply_kind()).collect();
    let d = decode_output(&o.out, &kinds);
    if let Some(p) = &d.problem {
        return Err(format!("its output is not a conformant stream: {}", p));
    }
    if d.stray_msgs != 0 || d.trailing_bytes != 0 {
        return Err(format!("{} stray packets / {} stray bytes in its output", d.stray_msgs, d.trailing_bytes));
    }
    if d.phys.first().map(|p| p.seq) != Some(0) {
        return Err("its greeting does not carry sequence id 0".into());
    }
    check_sequence_ids(&conv, &d).map_err(|m| format!("sequence ids: {}", m))?;
    let exps = expectations(&conv);
    for (i, (e, r)) in exps.iter().zip(&d.replies).enumerate() {
        check_reply(e, r, true).map_err(|m| format!("reply to command {}: {}", i, m))?;
    }
    Ok(())
}
