//! Choice-stream generators.
//!
//! Every random decision of every generator is drawn from a `G`, a cursor over a finite
//! sequence of `u32` *choices*.  The sequence itself is the proptest value: `ChoiceStrategy`
//! draws it from proptest's `TestRng` and `ChoiceTree` is its `ValueTree`, so proptest's runner
//! generates, counts and shrinks the *whole case* (conversation + schedule + writer programs)
//! as one value.  The same generator functions are reused by the libFuzzer targets (fuzzer bytes
//! are read as little-endian u32 choices) so fuzz artifacts and proptest failures share one
//! replay path.
//!
//! Mapping rules that keep shrinking meaningful: a choice `c` selects index `(c * n) >> 32`
//! (monotone, so smaller choices mean earlier alternatives; generators list the simplest
//! alternative first) and an exhausted stream yields 0.

use proptest::prelude::RngCore;
use proptest::strategy::{NewTree, Strategy, ValueTree};
use proptest::test_runner::TestRunner;
use std::cell::Cell;

pub struct G<'a> {
    data: &'a [u32],
    pos: usize,
    /// generator option (not a random choice): row generators may script refusable offers
    /// (`RowProg::offers`); only the properties whose oracle knows about them turn it on
    pub allow_offers: bool,
    /// set by the coverage-guided fuzz target: generators leave out the cases of tens of
    /// megabytes (a fuzzer that is rewarded with new coverage for them would do nothing else)
    pub fuzzing: bool,
}

thread_local! {
    /// number of choices the last generator run on this thread consumed (read by ChoiceTree)
    pub static LAST_USED: Cell<usize> = Cell::new(0);
}

impl<'a> G<'a> {
    pub fn new(data: &'a [u32]) -> Self {
        G { data, pos: 0, allow_offers: false, fuzzing: false }
    }
    pub fn used(&self) -> usize {
        self.pos
    }
    pub fn finish(&self) {
        LAST_USED.with(|c| c.set(self.pos));
    }
    pub fn raw(&mut self) -> u32 {
        let v = self.data.get(self.pos).copied().unwrap_or(0);
        self.pos += 1;
        v
    }
    /// uniform in [0, n)
    pub fn below(&mut self, n: u64) -> u64 {
        if n <= 1 {
            // still consume a choice so that the stream layout does not depend on n
            self.raw();
            return 0;
        }
        if n <= (1 << 32) {
            ((self.raw() as u64) * n) >> 32
        } else {
            let hi = self.raw() as u64;
            let lo = self.raw() as u64;
            let x = (hi << 32) | lo;
            ((x as u128 * n as u128) >> 64) as u64
        }
    }
    /// uniform in [lo, hi] inclusive
    pub fn range(&mut self, lo: u64, hi: u64) -> u64 {
        debug_assert!(lo <= hi);
        if hi - lo == u64::MAX {
            return self.u64_any();
        }
        lo + self.below(hi - lo + 1)
    }
    pub fn irange(&mut self, lo: i64, hi: i64) -> i64 {
        let span = (hi as i128 - lo as i128) as u64;
        if span == u64::MAX {
            return self.u64_any() as i64;
        }
        (lo as i128 + self.below(span + 1) as i128) as i64
    }
    pub fn usize_in(&mut self, lo: usize, hi: usize) -> usize {
        self.range(lo as u64, hi as u64) as usize
    }
    /// true with probability num/den; false is the "simple" outcome
    pub fn chance(&mut self, num: u64, den: u64) -> bool {
        // high choices => true, so that shrinking towards 0 turns features off
        self.below(den) >= den - num
    }
    pub fn coin(&mut self) -> bool {
        self.chance(1, 2)
    }
    pub fn pick<'b, T>(&mut self, xs: &'b [T]) -> &'b T {
        &xs[self.below(xs.len() as u64) as usize]
    }
    /// index chosen with the given weights
    pub fn weighted(&mut self, ws: &[u32]) -> usize {
        let total: u64 = ws.iter().map(|&w| w as u64).sum();
        let mut x = self.below(total);
        for (i, &w) in ws.iter().enumerate() {
            if x < w as u64 {
                return i;
            }
            x -= w as u64;
        }
        ws.len() - 1
    }
    pub fn u64_any(&mut self) -> u64 {
        let hi = self.raw() as u64;
        let lo = self.raw() as u64;
        (hi << 32) | lo
    }
    pub fn u32_any(&mut self) -> u32 {
        self.raw()
    }
    pub fn byte(&mut self) -> u8 {
        self.below(256) as u8
    }
    pub fn bytes(&mut self, len: usize) -> Vec<u8> {
        let mut v = Vec::with_capacity(len);
        let mut i = 0;
        while i < len {
            let r = self.raw();
            for k in 0..4 {
                if i < len {
                    v.push((r >> (8 * (3 - k))) as u8);
                    i += 1;
                }
            }
        }
        v
    }
    /// boundary-biased u64: powers of two +-1, lenenc class edges, or uniform
    pub fn u64_biased(&mut self) -> u64 {
        match self.weighted(&[6, 6, 6, 4, 3]) {
            4 => {
                // around the powers of ten (where decimal lengths change)
                let k = self.below(20) as u32;
                let base = 10u64.pow(k);
                match self.below(5) {
                    0 => base,
                    1 => base.wrapping_sub(1),
                    2 => base.wrapping_sub(2),
                    3 => base.wrapping_add(1),
                    _ => base.wrapping_sub(self.below(2000)),
                }
            }
            0 => self.below(300),
            1 => {
                let k = self.below(64) as u32;
                let base = 1u64 << k;
                match self.below(3) {
                    0 => base,
                    1 => base.wrapping_sub(1),
                    _ => base.wrapping_add(1),
                }
            }
            2 => *self.pick(&[
                0u64,
                1,
                250,
                251,
                252,
                253,
                254,
                255,
                256,
                65535,
                65536,
                (1 << 24) - 1,
                1 << 24,
                u32::MAX as u64,
                1 << 32,
                i64::MAX as u64,
                1 << 63,
                u64::MAX - 1,
                u64::MAX,
            ]),
            _ => self.u64_any(),
        }
    }
    /// boundary-biased i64
    pub fn i64_biased(&mut self) -> i64 {
        match self.weighted(&[6, 6, 4, 4, 3]) {
            4 => {
                // around the powers of ten (where decimal lengths change), both signs
                let k = self.below(19) as u32;
                let base = 10i64.pow(k);
                let v = match self.below(5) {
                    0 => base,
                    1 => base - 1,
                    2 => base - 2,
                    3 => base.wrapping_add(1),
                    _ => base.wrapping_sub(self.below(2000) as i64),
                };
                if self.coin() {
                    v.wrapping_neg()
                } else {
                    v
                }
            }
            0 => self.irange(-130, 130),
            1 => {
                let k = self.below(63) as u32;
                let base = 1i64 << k;
                let v = match self.below(3) {
                    0 => base,
                    1 => base - 1,
                    _ => base.wrapping_add(1),
                };
                if self.coin() {
                    v.wrapping_neg()
                } else {
                    v
                }
            }
            2 => *self.pick(&[
                0i64,
                -1,
                i8::MIN as i64,
                i8::MAX as i64,
                i16::MIN as i64,
                i16::MAX as i64,
                i32::MIN as i64,
                i32::MAX as i64,
                i64::MIN,
                i64::MAX,
                u8::MAX as i64,
                u16::MAX as i64,
                u32::MAX as i64,
            ]),
            _ => self.u64_any() as i64,
        }
    }
}

/// deterministic fill for symbolic payloads: position-dependent so that a shifted, dropped or
/// duplicated byte cannot cancel out
pub fn pattern_byte(seed: u32, i: u64) -> u8 {
    let x = (i.wrapping_mul(0x9E37_79B9_7F4A_7C15) ^ (seed as u64).wrapping_mul(0xD6E8_FEB8_6659_FD93))
        .wrapping_add(i >> 7);
    (x >> 29) as u8 ^ (x >> 53) as u8 ^ i as u8
}

pub fn pattern(seed: u32, len: usize) -> Vec<u8> {
    (0..len as u64).map(|i| pattern_byte(seed, i)).collect()
}

// ------------------------------------------------------------------------------------------
// proptest integration

#[derive(Clone, Debug)]
pub struct ChoiceStrategy {
    pub len: usize,
}

impl Strategy for ChoiceStrategy {
    type Tree = ChoiceTree;
    type Value = Vec<u32>;
    fn new_tree(&self, runner: &mut TestRunner) -> NewTree<Self> {
        let rng = runner.rng();
        let mut v = Vec::with_capacity(self.len);
        for _ in 0..self.len {
            v.push(rng.next_u32());
        }
        Ok(ChoiceTree::new(v))
    }
}

/// Shrinker over a choice sequence (Hypothesis-style internal shrinking driven by proptest's
/// simplify/complicate protocol): delete blocks, zero blocks, then minimise single choices by
/// binary search.  Passes repeat until a full round makes no progress.
pub struct ChoiceTree {
    cur: Vec<u32>,  // best known failing sequence
    cand: Vec<u32>, // candidate under test (== cur when none pending)
    pending: bool,
    truncated: bool,
    pass: usize,
    idx: usize,
    block: usize,
    progress: bool,
    // binary search state for the element pass
    lo: u32,
    in_bsearch: bool,
}

impl ChoiceTree {
    pub fn new(v: Vec<u32>) -> Self {
        ChoiceTree {
            cand: v.clone(),
            cur: v,
            pending: false,
            truncated: false,
            pass: 0,
            idx: 0,
            block: 0,
            progress: false,
            lo: 0,
            in_bsearch: false,
        }
    }

    fn accept(&mut self) {
        if self.pending {
            self.cur = self.cand.clone();
            self.pending = false;
            self.progress = true;
            if self.pass == 2 && self.in_bsearch {
                // candidate value failed too: it becomes the new high
                if self.idx < self.cur.len() && self.cur[self.idx] <= self.lo {
                    self.in_bsearch = false;
                    self.idx += 1;
                }
            }
            // for deletion passes, stay on the same index (the next block slid into place)
        }
    }

    fn reject(&mut self) {
        if self.pending {
            self.pending = false;
            match self.pass {
                0 | 1 => self.idx += self.block.max(1),
                _ => {
                    if self.in_bsearch {
                        // candidate passed: low moves above it
                        let tried = self.cand.get(self.idx).copied().unwrap_or(0);
                        self.lo = tried.saturating_add(1);
                        if self.idx >= self.cur.len() || self.lo >= self.cur[self.idx] {
                            self.in_bsearch = false;
                            self.idx += 1;
                        }
                    } else {
                        self.idx += 1;
                    }
                }
            }
            self.cand = self.cur.clone();
        }
    }

    const BLOCKS: [usize; 6] = [64, 16, 8, 4, 2, 1];

    /// propose the next candidate; false when shrinking is finished
    fn propose(&mut self) -> bool {
        loop {
            match self.pass {
                // pass 0: delete blocks
                0 => {
                    if self.block == 0 {
                        self.block = Self::BLOCKS[0];
                    }
                    if self.idx + self.block <= self.cur.len() {
                        let mut c = self.cur.clone();
                        c.drain(self.idx..self.idx + self.block);
                        self.cand = c;
                        self.pending = true;
                        return true;
                    }
                    // next block size
                    let bi = Self::BLOCKS.iter().position(|&b| b == self.block).unwrap();
                    if bi + 1 < Self::BLOCKS.len() {
                        self.block = Self::BLOCKS[bi + 1];
                        self.idx = 0;
                    } else {
                        self.pass = 1;
                        self.block = 0;
                        self.idx = 0;
                    }
                }
                // pass 1: zero blocks
                1 => {
                    if self.block == 0 {
                        self.block = 16;
                    }
                    if self.idx < self.cur.len() {
                        let end = (self.idx + self.block).min(self.cur.len());
                        if self.cur[self.idx..end].iter().all(|&x| x == 0) {
                            self.idx += self.block;
                            continue;
                        }
                        let mut c = self.cur.clone();
                        for x in &mut c[self.idx..end] {
                            *x = 0;
                        }
                        self.cand = c;
                        self.pending = true;
                        return true;
                    }
                    if self.block > 1 {
                        self.block /= 4;
                        self.idx = 0;
                    } else {
                        self.pass = 2;
                        self.idx = 0;
                        self.in_bsearch = false;
                    }
                }
                // pass 2: minimise each element by binary search
                2 => {
                    if self.idx >= self.cur.len() {
                        self.pass = 3;
                        continue;
                    }
                    let hi = self.cur[self.idx];
                    if !self.in_bsearch {
                        if hi == 0 {
                            self.idx += 1;
                            continue;
                        }
                        self.in_bsearch = true;
                        self.lo = 0;
                    }
                    if self.lo >= hi {
                        self.in_bsearch = false;
                        self.idx += 1;
                        continue;
                    }
                    let mid = self.lo + (hi - self.lo) / 2;
                    let mut c = self.cur.clone();
                    c[self.idx] = mid;
                    self.cand = c;
                    self.pending = true;
                    return true;
                }
                _ => {
                    if self.progress {
                        self.progress = false;
                        self.pass = 0;
                        self.block = 0;
                        self.idx = 0;
                        continue;
                    }
                    return false;
                }
            }
        }
    }
}

impl ValueTree for ChoiceTree {
    type Value = Vec<u32>;
    fn current(&self) -> Vec<u32> {
        self.cand.clone()
    }
    fn simplify(&mut self) -> bool {
        // called after `current()` failed
        if !self.truncated {
            self.truncated = true;
            let used = LAST_USED.with(|c| c.get());
            if used < self.cur.len() {
                self.cur.truncate(used);
                self.cand = self.cur.clone();
            }
        }
        self.accept();
        self.propose()
    }
    fn complicate(&mut self) -> bool {
        // called after `current()` passed
        self.reject();
        self.propose()
    }
}
