//! Reference models: the semantic value of what a shim writes / a client decodes, and the
//! abstract interpreter of writer programs (what response units a program must produce).

use crate::shim::*;
use crate::vals::*;
use crate::wire::*;
use serde::Serialize;

/// The mathematical value a cell denotes, independent of Rust type or wire form.
#[derive(Clone, Debug, PartialEq, Serialize)]
pub enum Sem {
    Null,
    Int(i128),
    /// finite float, as the exact f64 (an f32 is widened exactly)
    Float(u64),
    Bytes(Vec<u8>),
    Date(i32, u32, u32),
    DateTime(i32, u32, u32, u32, u32, u32, u32),
    /// non-negative duration in microseconds
    Time(u128),
    /// negative duration (microseconds, magnitude)
    NegTime(u128),
    /// something the model cannot give a single meaning to (e.g. invalid generic date)
    Invalid(String),
}

pub fn sem_of_base(b: &Base) -> Sem {
    match b {
        Base::U8(x) => Sem::Int(*x as i128),
        Base::I8(x) => Sem::Int(*x as i128),
        Base::U16(x) => Sem::Int(*x as i128),
        Base::I16(x) => Sem::Int(*x as i128),
        Base::U32(x) => Sem::Int(*x as i128),
        Base::I32(x) => Sem::Int(*x as i128),
        Base::U64(x) => Sem::Int(*x as i128),
        Base::I64(x) => Sem::Int(*x as i128),
        Base::Usize(x) => Sem::Int(*x as i128),
        Base::Isize(x) => Sem::Int(*x as i128),
        Base::F32(bits) => Sem::Float((f32::from_bits(*bits) as f64).to_bits()),
        Base::F64(bits) => Sem::Float(*bits),
        Base::Str(s) | Base::StrRef(s) => Sem::Bytes(s.as_bytes().to_vec()),
        Base::Vec(v) | Base::Slice(v) => Sem::Bytes(v.clone()),
        Base::BigBytes { seed, len } => Sem::Bytes(big_bytes(*seed, *len)),
        Base::BigStr { seed, len } => Sem::Bytes(big_str(*seed, *len).into_bytes()),
        Base::FlushThenI32(x) => Sem::Int(*x as i128),
        Base::Date(y, m, d) => Sem::Date(*y, *m, *d),
        Base::DateTime(y, m, d, h, mi, s, us) => Sem::DateTime(*y, *m, *d, *h, *mi, *s, *us),
        Base::Dur(secs, us) => Sem::Time(*secs as u128 * 1_000_000 + *us as u128),
        Base::My(m) => match m {
            MyVal::Null => Sem::Null,
            MyVal::Bytes(b) => Sem::Bytes(b.clone()),
            MyVal::Int(i) => Sem::Int(*i as i128),
            MyVal::UInt(u) => Sem::Int(*u as i128),
            MyVal::Float(b) => Sem::Float((f32::from_bits(*b) as f64).to_bits()),
            MyVal::Double(b) => Sem::Float(*b),
            MyVal::Date(y, m, d, h, mi, s, us) => {
                if naive_date(*y as i32, *m as u32, *d as u32).and_then(|dt| dt.and_hms_micro_opt(*h as u32, *mi as u32, *s as u32, *us)).is_some()
                    && *us < 1_000_000
                    && *s < 60
                {
                    Sem::DateTime(*y as i32, *m as u32, *d as u32, *h as u32, *mi as u32, *s as u32, *us)
                } else {
                    Sem::Invalid("generic date that is not a calendar date".into())
                }
            }
            MyVal::Time(neg, d, h, m, s, us) => {
                let total = ((*d as u128 * 24 + *h as u128) * 60 + *m as u128) * 60 * 1_000_000 + *s as u128 * 1_000_000 + *us as u128;
                if *neg {
                    Sem::NegTime(total)
                } else {
                    Sem::Time(total)
                }
            }
        },
    }
}

pub fn sem_of_val(v: &Val) -> Sem {
    if v.denotes_null() {
        Sem::Null
    } else {
        sem_of_base(&v.base)
    }
}

/// true when the base value is written with f32 precision (text decoding parses as f32 then)
pub fn is_f32(b: &Base) -> bool {
    matches!(b, Base::F32(_) | Base::My(MyVal::Float(_)))
}

/// Meaning of a decoded binary cell given the advertised column type.
pub fn sem_of_bin(v: &BinVal, coltype: u8) -> Sem {
    match v {
        BinVal::Null => Sem::Null,
        BinVal::Int(i) => Sem::Int(*i as i128),
        BinVal::UInt(u) => Sem::Int(*u as i128),
        BinVal::F32(b) => Sem::Float((f32::from_bits(*b) as f64).to_bits()),
        BinVal::F64(b) => Sem::Float(*b),
        BinVal::Bytes(b) => Sem::Bytes(b.clone()),
        BinVal::Date(y, m, d, h, mi, s, us, _) => {
            if coltype == T_DATE {
                Sem::Date(*y as i32, *m as u32, *d as u32)
            } else {
                Sem::DateTime(*y as i32, *m as u32, *d as u32, *h as u32, *mi as u32, *s as u32, *us)
            }
        }
        BinVal::Time(neg, d, h, m, s, us, _) => {
            let total = ((*d as u128 * 24 + *h as u128) * 60 + *m as u128) * 60 * 1_000_000 + *s as u128 * 1_000_000 + *us as u128;
            if *neg && total != 0 {
                Sem::NegTime(total)
            } else {
                Sem::Time(total)
            }
        }
    }
}

fn parse_uint(b: &[u8]) -> Option<u128> {
    if b.is_empty() || b.len() > 30 || !b.iter().all(|c| c.is_ascii_digit()) {
        return None;
    }
    std::str::from_utf8(b).ok()?.parse().ok()
}

fn parse_frac(b: &[u8]) -> Option<u32> {
    // ".ffffff" with 1..=6 digits
    if b.is_empty() {
        return Some(0);
    }
    if b[0] != b'.' || b.len() < 2 || b.len() > 7 {
        return None;
    }
    let digits = &b[1..];
    let v = parse_uint(digits)? as u32;
    Some(v * 10u32.pow(6 - digits.len() as u32))
}

/// Parse a text-protocol cell with the canonical text grammar of the *intended* kind.
pub fn sem_of_text(cell: &[u8], intended: &Sem, f32_precision: bool) -> Result<Sem, String> {
    let s = || String::from_utf8_lossy(cell).to_string();
    match intended {
        Sem::Null | Sem::Invalid(_) => Err("no grammar".into()),
        Sem::Bytes(_) => Ok(Sem::Bytes(cell.to_vec())),
        Sem::Int(_) => {
            let (neg, digits) = match cell.first() {
                Some(b'-') => (true, &cell[1..]),
                Some(b'+') => (false, &cell[1..]),
                _ => (false, cell),
            };
            let m = parse_uint(digits).ok_or_else(|| format!("{:?} is not a decimal integer", s()))? as i128;
            Ok(Sem::Int(if neg { -m } else { m }))
        }
        Sem::Float(_) => {
            let t = std::str::from_utf8(cell).map_err(|_| "float text not UTF-8".to_string())?;
            if f32_precision {
                let f: f32 = t.parse().map_err(|_| format!("{:?} is not a float", t))?;
                Ok(Sem::Float((f as f64).to_bits()))
            } else {
                let f: f64 = t.parse().map_err(|_| format!("{:?} is not a float", t))?;
                Ok(Sem::Float(f.to_bits()))
            }
        }
        Sem::Date(..) => {
            // YYYY-MM-DD
            if cell.len() != 10 || cell[4] != b'-' || cell[7] != b'-' {
                return Err(format!("{:?} is not YYYY-MM-DD", s()));
            }
            let y = parse_uint(&cell[0..4]).ok_or("year")? as i32;
            let m = parse_uint(&cell[5..7]).ok_or("month")? as u32;
            let d = parse_uint(&cell[8..10]).ok_or("day")? as u32;
            Ok(Sem::Date(y, m, d))
        }
        Sem::DateTime(..) => {
            // YYYY-MM-DD HH:MM:SS[.ffffff]
            if cell.len() < 19 || cell[4] != b'-' || cell[7] != b'-' || cell[10] != b' ' || cell[13] != b':' || cell[16] != b':' {
                return Err(format!("{:?} is not YYYY-MM-DD HH:MM:SS[.ffffff]", s()));
            }
            let y = parse_uint(&cell[0..4]).ok_or("year")? as i32;
            let m = parse_uint(&cell[5..7]).ok_or("month")? as u32;
            let d = parse_uint(&cell[8..10]).ok_or("day")? as u32;
            let h = parse_uint(&cell[11..13]).ok_or("hour")? as u32;
            let mi = parse_uint(&cell[14..16]).ok_or("minute")? as u32;
            let sec = parse_uint(&cell[17..19]).ok_or("second")? as u32;
            let us = parse_frac(&cell[19..]).ok_or_else(|| format!("bad fraction in {:?}", s()))?;
            Ok(Sem::DateTime(y, m, d, h, mi, sec, us))
        }
        Sem::Time(_) | Sem::NegTime(_) => {
            // [-]H+:MM:SS[.ffffff]
            let (neg, rest) = if cell.first() == Some(&b'-') { (true, &cell[1..]) } else { (false, cell) };
            let c1 = rest.iter().position(|&c| c == b':').ok_or_else(|| format!("{:?} is not H:MM:SS", s()))?;
            if rest.len() < c1 + 6 || rest[c1 + 3] != b':' {
                return Err(format!("{:?} is not H:MM:SS", s()));
            }
            let h = parse_uint(&rest[..c1]).ok_or("hours")?;
            let m = parse_uint(&rest[c1 + 1..c1 + 3]).ok_or("minutes")?;
            let sec = parse_uint(&rest[c1 + 4..c1 + 6]).ok_or("seconds")?;
            if m >= 60 || sec >= 60 {
                return Err(format!("{:?}: minutes/seconds out of range", s()));
            }
            let us = parse_frac(&rest[c1 + 6..]).ok_or_else(|| format!("bad fraction in {:?}", s()))? as u128;
            let total = (h * 3600 + m * 60 + sec) * 1_000_000 + us;
            Ok(if neg && total != 0 { Sem::NegTime(total) } else { Sem::Time(total) })
        }
    }
}

// ------------------------------------------------------------------------------------------
// binary-protocol acceptance model (which (value, column) pairs must be accepted / refused)

#[derive(Clone, Debug, PartialEq)]
pub enum BinExpect {
    /// must be accepted and decode to this
    Accept(Sem),
    /// must be refused (Err or deliberate assertion)
    Refuse,
    /// either a refusal, or acceptance decoding to exactly this
    AcceptOrRefuse(Sem),
}

pub fn col_int_range(coltype: u8, unsigned: bool) -> Option<(i128, i128)> {
    let bits = match coltype {
        T_TINY => 8,
        T_SHORT | T_YEAR => 16,
        T_LONG | T_INT24 => 32,
        T_LONGLONG => 64,
        _ => return None,
    };
    Some(if unsigned { (0, (1i128 << bits) - 1) } else { (-(1i128 << (bits - 1)), (1i128 << (bits - 1)) - 1) })
}

pub fn rust_int_range(b: &Base) -> Option<(i128, i128, bool)> {
    // (min, max, pointer_sized)
    Some(match b {
        Base::U8(_) => (0, u8::MAX as i128, false),
        Base::I8(_) => (i8::MIN as i128, i8::MAX as i128, false),
        Base::U16(_) => (0, u16::MAX as i128, false),
        Base::I16(_) => (i16::MIN as i128, i16::MAX as i128, false),
        Base::U32(_) => (0, u32::MAX as i128, false),
        Base::I32(_) => (i32::MIN as i128, i32::MAX as i128, false),
        Base::U64(_) => (0, u64::MAX as i128, false),
        Base::I64(_) => (i64::MIN as i128, i64::MAX as i128, false),
        Base::Usize(_) => (0, usize::MAX as i128, true),
        Base::Isize(_) => (isize::MIN as i128, isize::MAX as i128, true),
        _ => return None,
    })
}

/// What C07/C15 demand of writing non-NULL `base` into a binary column.
pub fn bin_expect(base: &Base, coltype: u8, unsigned: bool) -> BinExpect {
    let sem = sem_of_base(base);
    let int_col = col_int_range(coltype, unsigned);
    match (&sem, base) {
        (Sem::Int(v), _) => match int_col {
            None => BinExpect::Refuse,
            Some((lo, hi)) => match rust_int_range(base) {
                Some((tmin, tmax, ptr)) => {
                    if ptr {
                        if *v >= lo && *v <= hi {
                            BinExpect::Accept(sem)
                        } else {
                            BinExpect::Refuse
                        }
                    } else if tmin >= lo && tmax <= hi {
                        BinExpect::Accept(sem)
                    } else if *v >= lo && *v <= hi {
                        BinExpect::AcceptOrRefuse(sem)
                    } else {
                        BinExpect::Refuse
                    }
                }
                // generic integer values: exact or refused
                None => {
                    if *v >= lo && *v <= hi {
                        BinExpect::AcceptOrRefuse(sem)
                    } else {
                        BinExpect::Refuse
                    }
                }
            },
        },
        (Sem::Float(_), _) => match coltype {
            T_DOUBLE => BinExpect::Accept(sem),
            T_FLOAT => {
                if is_f32(base) {
                    BinExpect::Accept(sem)
                } else {
                    // an f64 cannot in general be carried by a FLOAT column
                    BinExpect::Refuse
                }
            }
            _ => BinExpect::Refuse,
        },
        (Sem::Bytes(_), _) => {
            if is_bytes_type(coltype) {
                BinExpect::Accept(sem)
            } else {
                BinExpect::Refuse
            }
        }
        // (the binary forms carry the year in two bytes: a chrono date of year 70000 or -1 cannot
        // be sent exactly; years 10000-65535 fit the wire but not MySQL's own DATE range)
        (Sem::Date(y, ..), _) if coltype == T_DATE && !(0..=65_535).contains(y) => BinExpect::Refuse,
        (Sem::DateTime(y, ..), _) if (coltype == T_DATETIME || coltype == T_TIMESTAMP) && !(0..=65_535).contains(y) => BinExpect::Refuse,
        (Sem::Date(y, ..), _) if coltype == T_DATE && *y > 9999 => BinExpect::AcceptOrRefuse(sem),
        (Sem::DateTime(y, ..), _) if (coltype == T_DATETIME || coltype == T_TIMESTAMP) && *y > 9999 => BinExpect::AcceptOrRefuse(sem),
        (Sem::Date(..), _) => {
            if coltype == T_DATE {
                BinExpect::Accept(sem)
            } else {
                BinExpect::Refuse
            }
        }
        (Sem::DateTime(y, m, d, h, mi, s, us), b) => {
            if coltype == T_DATETIME || coltype == T_TIMESTAMP {
                BinExpect::Accept(sem)
            } else if coltype == T_DATE && matches!(b, Base::My(MyVal::Date(..))) && (*h, *mi, *s, *us) == (0, 0, 0, 0) {
                // a generic date value without a time of day is a calendar date: a DATE column can
                // carry it (exactly), the pinned encoder happens to refuse it
                BinExpect::AcceptOrRefuse(Sem::Date(*y, *m, *d))
            } else {
                BinExpect::Refuse
            }
        }
        (Sem::Time(us), _) => {
            if coltype == T_TIME {
                // the binary TIME form carries days in 32 bits; MySQL's own range is 34 days.
                if *us <= 34u128 * 86_400 * 1_000_000 + 86_399_999_999 {
                    BinExpect::Accept(sem)
                } else {
                    BinExpect::AcceptOrRefuse(sem)
                }
            } else {
                BinExpect::Refuse
            }
        }
        (Sem::NegTime(_), _) => {
            if coltype == T_TIME {
                BinExpect::AcceptOrRefuse(sem)
            } else {
                BinExpect::Refuse
            }
        }
        (Sem::Invalid(_), _) => BinExpect::Refuse,
        (Sem::Null, _) => BinExpect::Refuse,
    }
}

// ------------------------------------------------------------------------------------------
// abstract interpreter of writer programs

#[derive(Clone, Debug, PartialEq, Serialize)]
pub enum XUnit {
    Ok { rows: u64, id: u64 },
    Set { cols: Vec<ColSpec>, rows: Vec<Vec<Val>>, err: Option<(u16, Vec<u8>)> },
    Err { code: u16, msg: Vec<u8> },
}

impl XUnit {
    pub fn brief(&self) -> String {
        match self {
            XUnit::Ok { rows, id } => format!("OK({},{})", rows, id),
            XUnit::Set { cols, rows, err } => format!("SET(cols={},rows={}{})", cols.len(), rows.len(), err.as_ref().map(|e| format!(",err {}", e.0)).unwrap_or_default()),
            XUnit::Err { code, .. } => format!("ERR({})", code),
        }
    }
}

/// The response units a (shape-conforming) program must produce, in order.  Every unit but the
/// last carries the more-results flag.
pub fn expected_units(p: &Program) -> Vec<XUnit> {
    let mut out = Vec::new();
    for step in &p.steps {
        match step {
            Step::CompleteOne { rows, id } | Step::Completed { rows, id } => out.push(XUnit::Ok { rows: *rows, id: *id }),
            Step::Error { kind, msg } => out.push(XUnit::Err { code: *kind, msg: msg.clone() }),
            Step::NoMoreResults | Step::DropResultWriter => {}
            Step::Set { cols, rows, end } => {
                let err = match end {
                    SetEnd::FinishError { kind, msg } => Some((*kind, msg.clone())),
                    _ => None,
                };
                if cols.is_empty() {
                    // zero-column resultset: an OK whose affected-rows is the number of rows ended
                    match err {
                        Some((code, msg)) => out.push(XUnit::Err { code, msg }),
                        None => {
                            let ended: u64 = rows
                                .iter()
                                .map(|r| match r.form {
                                    RowForm::ColsOpen | RowForm::ShortEndRow => 0,
                                    RowForm::EndRowTimes(n) => n,
                                    _ => 1,
                                })
                                .sum();
                            out.push(XUnit::Ok { rows: ended, id: 0 });
                        }
                    }
                } else {
                    // (a row without cells in a resultset with columns is one the shim gave up before
                    // writing anything - see gens::gen_row: it is not part of the response)
                    out.push(XUnit::Set { cols: cols.clone(), rows: rows.iter().filter(|r| !r.cells.is_empty() && r.form != RowForm::ShortEndRow).map(|r| r.cells.clone()).collect(), err });
                }
            }
        }
        if matches!(
            step,
            Step::Completed { .. } | Step::Error { .. } | Step::NoMoreResults | Step::DropResultWriter
        ) || matches!(step, Step::Set { end, .. } if !matches!(end, SetEnd::FinishOne))
        {
            break;
        }
    }
    out
}

/// Compare a decoded response with the model.  Returns the first discrepancy.
/// `check_values`: also compare cell values (text by canonical grammar, binary by column type).
pub fn compare_units(got: &[Unit], want: &[XUnit], check_values: bool) -> Result<(), String> {
    if got.len() != want.len() {
        return Err(format!(
            "response has {} result units [{}], program produces {} [{}]",
            got.len(),
            got.iter().map(|u| u.brief()).collect::<Vec<_>>().join(", "),
            want.len(),
            want.iter().map(|u| u.brief()).collect::<Vec<_>>().join(", ")
        ));
    }
    for (i, (g, w)) in got.iter().zip(want).enumerate() {
        let last = i + 1 == want.len();
        let ctx = |m: String| format!("result unit {} (got {}, want {}): {}", i, g.brief(), w.brief(), m);
        match (g, w) {
            (Unit::Ok(o), XUnit::Ok { rows, id }) => {
                if check_values && (o.affected != *rows || o.last_id != *id) {
                    return Err(ctx(format!("OK carries ({}, {}) but the shim reported ({}, {})", o.affected, o.last_id, rows, id)));
                }
                if (o.status & STATUS_MORE_RESULTS != 0) == last {
                    return Err(ctx(format!("more-results flag is {} on {} unit", !last, if last { "the last" } else { "a non-final" })));
                }
            }
            (Unit::Err(e), XUnit::Err { code, msg }) => {
                if check_values && (e.code != *code || &e.msg != msg) {
                    return Err(ctx(format!("ERR carries code {} / {} message bytes, shim reported {} / {}", e.code, e.msg.len(), code, msg.len())));
                }
                if !last {
                    return Err(ctx("ERR in non-final position".into()));
                }
            }
            (Unit::Set { cols, rows, end_status, end_err }, XUnit::Set { cols: wcols, rows: wrows, err }) => {
                if cols.len() != wcols.len() {
                    return Err(ctx(format!("{} columns advertised, {} declared", cols.len(), wcols.len())));
                }
                if rows.len() != wrows.len() {
                    return Err(ctx(format!("{} rows received, {} written", rows.len(), wrows.len())));
                }
                match (end_status, end_err, err) {
                    (Some(s), None, None) => {
                        if (s & STATUS_MORE_RESULTS != 0) == last {
                            return Err(ctx(format!("more-results flag is {} on {} resultset", !last, if last { "the last" } else { "a non-final" })));
                        }
                    }
                    (None, Some(e), Some((code, msg))) => {
                        if check_values && (e.code != *code || &e.msg != msg) {
                            return Err(ctx("resultset-terminating ERR differs from finish_error arguments".into()));
                        }
                        if !last {
                            return Err(ctx("ERR-terminated set in non-final position".into()));
                        }
                    }
                    _ => return Err(ctx("resultset terminator kind (EOF vs ERR) differs".into())),
                }
                if check_values {
                    for (ri, wrow) in wrows.iter().enumerate() {
                        for (ci, wv) in wrow.iter().enumerate() {
                            let want_sem = sem_of_val(wv);
                            let got_sem = match rows {
                                Rows::Text(r) => match &r[ri][ci] {
                                    None => Sem::Null,
                                    Some(bytes) => {
                                        if want_sem == Sem::Null {
                                            Sem::Bytes(bytes.clone())
                                        } else {
                                            sem_of_text(bytes, &want_sem, is_f32(&wv.base)).map_err(|e| ctx(format!("row {} col {}: {}", ri, ci, e)))?
                                        }
                                    }
                                },
                                Rows::Bin(r) => sem_of_bin(&r[ri][ci], cols[ci].coltype),
                            };
                            if got_sem != want_sem {
                                return Err(ctx(format!("row {} col {}: client decodes {:?}, shim wrote {:?} ({:?})", ri, ci, got_sem, want_sem, wv)));
                            }
                        }
                    }
                }
            }
            _ => return Err(ctx("unit kind differs".into())),
        }
    }
    Ok(())
}

// ------------------------------------------------------------------------------------------
// per-command expectations for a whole conversation

use crate::conv::{Cmd, Conversation};

#[derive(Clone, Debug, Serialize)]
pub enum Expect {
    /// result units of a writer program
    Units(Vec<XUnit>),
    PrepareOk { id: u32, params: Vec<ColSpec>, cols: Vec<ColSpec> },
    /// single ERR
    Err { code: u16, msg: Vec<u8> },
    /// single OK (content not asserted beyond being OK)
    OkPlain,
    /// one conformant response of a kind legal for the command; content not asserted
    AnyLegal,
    /// the command expects no reply
    Nothing,
    /// the connection is expected to end here (invalid statement id etc.)
    ConnectionEnds,
}

pub fn is_builtin_probe(q: &[u8]) -> bool {
    q.starts_with(b"SELECT @@") || q.starts_with(b"select @@")
}

pub fn is_use_stmt(q: &[u8]) -> bool {
    q.starts_with(b"USE ") || q.starts_with(b"use ")
}

/// Walk the conversation with the model of which command consumes which scripted action.
pub fn expectations(c: &Conversation) -> Vec<Expect> {
    let mut actions = c.actions.iter();
    let mut live: std::collections::HashSet<u32> = Default::default();
    let mut out = Vec::new();
    let mut ended = false;
    for sc in &c.cmds {
        if ended {
            out.push(Expect::ConnectionEnds);
            continue;
        }
        let e = match &sc.cmd {
            Cmd::Query { text } => {
                let t = text.bytes();
                if is_builtin_probe(&t) {
                    Expect::AnyLegal
                } else if is_use_stmt(&t) {
                    if c.default_init {
                        Expect::OkPlain
                    } else {
                        match actions.next() {
                            Some(Action::Init(InitProg::Ok)) => Expect::OkPlain,
                            Some(Action::Init(InitProg::Error { kind, msg })) => Expect::Err { code: *kind, msg: msg.clone() },
                            _ => Expect::AnyLegal,
                        }
                    }
                } else {
                    match actions.next() {
                        Some(Action::Result(p)) => Expect::Units(expected_units(p)),
                        _ => Expect::AnyLegal,
                    }
                }
            }
            Cmd::InitDb { .. } => {
                if c.default_init {
                    Expect::OkPlain
                } else {
                    match actions.next() {
                        Some(Action::Init(InitProg::Ok)) => Expect::OkPlain,
                        Some(Action::Init(InitProg::Error { kind, msg })) => Expect::Err { code: *kind, msg: msg.clone() },
                        _ => Expect::AnyLegal,
                    }
                }
            }
            Cmd::Prepare { .. } => match actions.next() {
                Some(Action::Prepare(PrepProg::Reply { id, params, cols })) => {
                    live.insert(*id);
                    Expect::PrepareOk { id: *id, params: params.clone(), cols: cols.clone() }
                }
                Some(Action::Prepare(PrepProg::Error { kind, msg })) => Expect::Err { code: *kind, msg: msg.clone() },
                _ => Expect::AnyLegal,
            },
            Cmd::Execute { id, .. } => {
                if live.contains(id) {
                    match actions.next() {
                        Some(Action::Result(p)) => Expect::Units(expected_units(p)),
                        _ => Expect::AnyLegal,
                    }
                } else {
                    ended = true;
                    Expect::ConnectionEnds
                }
            }
            Cmd::LongData { id, .. } => {
                if live.contains(id) {
                    Expect::Nothing
                } else {
                    ended = true;
                    Expect::ConnectionEnds
                }
            }
            Cmd::Close { id } => {
                live.remove(id);
                Expect::Nothing
            }
            Cmd::Ping => Expect::OkPlain,
            Cmd::FieldList { .. } => Expect::AnyLegal,
            Cmd::Quit => {
                ended = true;
                Expect::Nothing
            }
            Cmd::Raw { .. } => Expect::AnyLegal,
        };
        out.push(e);
    }
    out
}

pub fn coldefs_match(got: &[ColDef], want: &[ColSpec]) -> Result<(), String> {
    if got.len() != want.len() {
        return Err(format!("{} column definitions received, {} declared", got.len(), want.len()));
    }
    for (i, (g, w)) in got.iter().zip(want).enumerate() {
        if g.table != w.table.as_bytes() {
            return Err(format!("column {}: table {:?} received, {:?} declared", i, String::from_utf8_lossy(&g.table), w.table));
        }
        if g.name != w.name.as_bytes() {
            return Err(format!("column {}: name {:?} received, {:?} declared", i, String::from_utf8_lossy(&g.name), w.name));
        }
        if g.coltype != w.coltype {
            return Err(format!("column {}: type {} received, {} declared", i, g.coltype, w.coltype));
        }
        if g.flags != w.flags {
            return Err(format!("column {}: flags {:#06x} received, {:#06x} declared", i, g.flags, w.flags));
        }
    }
    Ok(())
}

/// Does the decoded response match the expectation?  `values`: compare cell values and
/// column metadata too (C06/C07/C09 do; C03 only needs shape).
pub fn check_reply(e: &Expect, r: &Response, values: bool) -> Result<(), String> {
    match e {
        Expect::Nothing | Expect::ConnectionEnds => {
            if r.n_msgs != 0 {
                return Err(format!("{} packets sent for a command that expects no reply", r.n_msgs));
            }
            Ok(())
        }
        Expect::AnyLegal => Ok(()),
        Expect::OkPlain => match &r.units[..] {
            [Unit::Ok(o)] if o.status & STATUS_MORE_RESULTS == 0 => Ok(()),
            other => Err(format!("expected a single OK, got [{}]", other.iter().map(|u| u.brief()).collect::<Vec<_>>().join(", "))),
        },
        Expect::Err { code, msg } => match &r.units[..] {
            [Unit::Err(e)] if !values || (e.code == *code && &e.msg == msg) => Ok(()),
            other => Err(format!("expected ERR({}), got [{}]", code, other.iter().map(|u| u.brief()).collect::<Vec<_>>().join(", "))),
        },
        Expect::PrepareOk { id, params, cols } => match &r.units[..] {
            [Unit::PrepareOk { ok, params: gp, cols: gc }] => {
                if values && ok.id != *id {
                    return Err(format!("PREPARE_OK statement id {} but the shim replied {}", ok.id, id));
                }
                if values && (ok.nparams as usize != params.len() || ok.ncols as usize != cols.len()) {
                    return Err(format!("PREPARE_OK counts (params {}, cols {}) but the shim declared ({}, {})", ok.nparams, ok.ncols, params.len(), cols.len()));
                }
                if values {
                    coldefs_match(gp, params).map_err(|e| format!("prepare parameter definitions: {}", e))?;
                    coldefs_match(gc, cols).map_err(|e| format!("prepare column definitions: {}", e))?;
                }
                Ok(())
            }
            other => Err(format!("expected PREPARE_OK, got [{}]", other.iter().map(|u| u.brief()).collect::<Vec<_>>().join(", "))),
        },
        Expect::Units(want) => {
            compare_units(&r.units, want, values)?;
            if values {
                for (g, w) in r.units.iter().zip(want) {
                    if let (Unit::Set { cols, .. }, XUnit::Set { cols: wc, .. }) = (g, w) {
                        coldefs_match(cols, wc)?;
                    }
                }
            }
            Ok(())
        }
    }
}
