//! C18 — TLS upgrade loses no bytes and leaks no plaintext.

use crate::conv::*;
use crate::engine::*;
use crate::gen::G;
use crate::gens::*;
use crate::shim::*;
use crate::tlspeer::*;
use crate::transport::*;
use crate::wire::*;
use serde::{Deserialize, Serialize};

pub struct C18;

#[derive(Clone, Debug, Serialize, Deserialize)]
pub struct Case {
    pub conv: Conversation,
    pub tls_offered: bool,
    pub server_asks_client_cert: bool,
    pub client_cert: bool,
    pub tls13: bool,
    /// bytes of ALPN protocol names that enlarge the ClientHello (0 = a plain ~230-byte hello)
    #[serde(default)]
    pub alpn_pad: usize,
    /// the SSL request in the pre-4.1 layout: 2-byte capabilities with the SSL bit, 3-byte packet
    /// size and (as that layout has no shorter form) this NUL-terminated user name
    #[serde(default)]
    pub sslreq_320_user: Option<Vec<u8>>,
    /// minor version in the ClientHello's record header (None = what rustls writes, 3.1)
    #[serde(default)]
    pub hello_record_minor: Option<u8>,
}

/// length of the 4.1-layout SSL request packet (generator only; the checks measure the real one)
const GEN_SSLREQ_LEN: usize = 36;

fn gen_tls_schedule(g: &mut G<'_>) -> (Schedule, &'static str) {
    let mut s = Schedule::default();
    let class = g.weighted(&[3, 4, 3, 2, 2, 3]);
    let tail: Vec<usize> = match g.below(4) {
        0 => vec![usize::MAX / 2],
        1 => vec![1],
        2 => (0..g.usize_in(1, 5)).map(|_| *g.pick(&[1usize, 2, 3, 5, 7, 16, 100, 517, 4096])).collect(),
        _ => vec![*g.pick(&[5usize, 64, 1000, 16_384])],
    };
    let name = match class {
        0 => {
            // cut k bytes into the SSL request
            s.sizes = vec![g.usize_in(1, GEN_SSLREQ_LEN - 1)];
            "cut-inside-ssl-request"
        }
        1 => {
            // SSL request + first k bytes of the ClientHello in one read
            s.sizes = vec![GEN_SSLREQ_LEN + g.usize_in(1, 240)];
            "ssl-request+k-bytes-of-client-hello"
        }
        2 => {
            s.sizes = vec![usize::MAX / 2];
            "everything-in-one-read"
        }
        3 => {
            s.sizes = vec![1];
            "one-byte-reads"
        }
        4 => {
            s.sizes = vec![GEN_SSLREQ_LEN];
            "exact-ssl-request"
        }
        _ => {
            s.sizes = vec![*g.pick(&[2usize, 3, 4, 5, 35, 37, 40, 41, 100])];
            "mixed"
        }
    };
    // the first size applies once; then the tail cycles.  Encode as: sizes = [first] + tail
    // repeated enough (the transport cycles the whole list, so pad the tail generously)
    let first = s.sizes[0];
    let mut sizes = vec![first];
    for _ in 0..64 {
        sizes.extend_from_slice(&tail);
    }
    s.sizes = sizes;
    if g.chance(1, 4) {
        s.write_accept = vec![*g.pick(&[1usize, 7, 100, 4096])];
    }
    (s, name)
}

impl Prop for C18 {
    type Case = Case;
    fn id(&self) -> &'static str {
        "C18"
    }
    fn rule(&self) -> String {
        "cases = configuration {TLS offered?, server asks for a client certificate?, client has a certificate?, TLS 1.2 / 1.3} x a C03-style conversation (lock-step or pipelined; 1 in 8 with one reply of 600-5000 small rows, i.e. 60-500 KB of TLS records) x a chunk schedule over the whole client stream. The client is a rustls ClientConnection embedded in the scripted transport: it writes the SSLRequest packet (4.1 layout, reserved bytes zero or random; one in eight in the pre-4.1 layout with a 16-bit mask and a user name, then half of the time followed by a pre-4.1 encrypted response) and the ClientHello back-to-back (as real clients do), later flights as rustls produces them (the ClientHello optionally enlarged to 4-16 KiB by a long ALPN list, as session tickets and post-quantum key shares do), the HandshakeResponse (sequence id 2) and the commands inside the TLS session. Schedule classes: cut k bytes into the SSLRequest; SSLRequest + first k bytes of the ClientHello in one read; everything in one read; 1-byte reads; exact SSLRequest; mixed. Enumerated: a 17 MB query answered by a 17 MB row inside the TLS session (thorough: also 2^24-2 and 2*(2^24-1)+5 bytes), lock-step and pipelined. Oracle: run_on = Ok; every server byte after the greeting parses as TLS records and is accepted by rustls; the user name from the *encrypted* response and the client's DER chain (or None) reach after_authentication; the decrypted replies equal, message for message, the same conversation run in plaintext (differential); the client never hangs. TLS requested but not offered => Err and after_authentication never called. One case in four writes another record-layer version (3.0, 3.2, 3.3) into the ClientHello's record header than rustls' 3.1. One case in six has the shim refuse the client inside the session: run_on returns the shim's error, the ERR travels encrypted with the id after the encrypted response's, and everything matches the plaintext run. Non-trivial = some read() returned bytes from both sides of the SSLRequest / ClientHello boundary (measured from the operation log).".into()
    }
    fn assumptions(&self) -> Vec<String> {
        vec![
            "the peer is rustls (TLS 1.2 and 1.3), not every TLS stack".into(),
            "TLS key-exchange randomness is the only nondeterminism; it does not influence the case or the verdict".into(),
        ]
    }
    fn cases(&self, tier: Tier) -> u64 {
        tier.pick(40000, 400000)
    }
    fn choice_len(&self) -> usize {
        4096
    }
    fn gen(&self, g: &mut G<'_>, _tier: Tier) -> Case {
        let opts = ConvOpts { max_cmds: 5, max_rows: 3, sentinels: false, default_init_sometimes: false, quit_sometimes: true };
        let mut conv = if g.chance(1, 5) { Conversation::new(vec![], vec![]) } else { gen_conv(g, &opts) };
        let user: Vec<u8> = match g.below(3) {
            0 => b"tlsuser".to_vec(),
            1 => (0..g.usize_in(0, 12)).map(|_| 1 + g.below(255) as u8).collect(),
            _ => b"j\xc3\xb6n".to_vec(),
        };
        conv.hs = Handshake {
            // the response sent inside the TLS session: its mask usually repeats the SSL bit of the
            // SSL request, but nothing obliges a client to (every mask is a legal mask)
            kind: HsKind::V41 {
                caps: CAP_LONG_PASSWORD | CAP_PROTOCOL_41 | CAP_SECURE_CONNECTION | CAP_MULTI_RESULTS | (if g.chance(3, 4) { CAP_SSL } else { 0 }) | (if g.chance(1, 3) { g.raw() & CAP_FORMAT_NEUTRAL } else { 0 }),
                max_packet: 1 << 24,
                charset: 0x21,
                user,
                tail: vec![0],
            },
            seq: 2,
            user_pad: 0,
            tail_pad: 0,
            reserved: if g.chance(1, 5) { g.bytes(23) } else { vec![] },
        };
        vary_announcements(g, &mut conv.hs);
        // one in eight: the request comes in the pre-4.1 layout (SSL bit in a 16-bit mask)
        let sslreq_320_user = if g.chance(1, 8) { Some(if g.coin() { b"legacy".to_vec() } else { (0..g.usize_in(0, 8)).map(|_| 1 + g.below(255) as u8).collect() }) } else { None };
        if sslreq_320_user.is_some() && g.coin() {
            // ... and then the encrypted response too
            if let HsKind::V41 { user, .. } = &conv.hs.kind {
                conv.hs.kind = HsKind::V320 { caps: (CAP_LONG_PASSWORD | CAP_SSL) as u16, max_packet: 0xff_ffff, user: user.clone(), tail: vec![0] };
            }
        }
        // sometimes one reply of many small packets totalling 60-500 KB (several TLS records, more
        // than rustls buffers internally)
        if g.chance(1, 8) {
            let idx: Vec<usize> = conv.actions.iter().enumerate().filter(|(_, a)| matches!(a, Action::Result(_))).map(|(i, _)| i).collect();
            if !idx.is_empty() {
                let ai = *g.pick(&idx);
                let nrows = g.usize_in(600, 5000);
                let width = g.usize_in(1, 120);
                let cols = vec![crate::vals::ColSpec::simple("a", T_VAR_STRING, 0), crate::vals::ColSpec::simple("b", T_LONG, 0)];
                let rows: Vec<RowProg> = (0..nrows)
                    .map(|r| RowProg { cells: vec![crate::vals::Val::plain(crate::vals::Base::Slice(vec![b'a' + (r % 26) as u8; width])), crate::vals::Val::plain(crate::vals::Base::I32(r as i32))], form: RowForm::WriteRow, offers: vec![] })
                    .collect();
                conv.actions[ai] = Action::Result(Program { steps: vec![Step::Set { cols, rows, end: SetEnd::Finish }] });
            }
        }
        // one in six: the shim refuses the client once it has seen who it is
        if g.chance(1, 6) {
            conv.reject_auth = Some(2000 + g.below(1000) as u32);
        }
        conv.lockstep = g.chance(1, 3);
        let (s, _) = gen_tls_schedule(g);
        conv.sched = s;
        let alpn_pad = match g.weighted(&[6, 2, 2]) {
            0 => 0,
            1 => g.usize_in(3600, 4200),
            _ => *g.pick(&[1000usize, 3800, 3900, 4000, 4100, 6000, 8000, 12_000, 15_000]),
        };
        Case { conv, tls_offered: g.chance(5, 6), server_asks_client_cert: g.coin(), client_cert: g.coin(), tls13: g.coin(), alpn_pad, sslreq_320_user, hello_record_minor: if g.chance(1, 4) { Some(*g.pick(&[3u8, 0, 2, 3])) } else { None } }
    }
    fn fixed(&self, tier: Tier) -> Vec<Case> {
        // messages longer than a wire packet in both directions inside the TLS session (a 17 MB
        // query answered by a 17 MB row; thorough: also two packets and an exact multiple)
        use crate::vals::*;
        let mut v = Vec::new();
        let lens: &[usize] = match tier {
            Tier::Quick => &[MAX_PAYLOAD + 1000],
            Tier::Thorough => &[MAX_PAYLOAD - 1, MAX_PAYLOAD + 1000, 2 * MAX_PAYLOAD + 5],
        };
        for (i, &len) in lens.iter().enumerate() {
            for lockstep in [true, false] {
                let row = RowProg { cells: vec![Val::plain(Base::I32(7)), Val::plain(Base::BigBytes { seed: i as u32 + 1, len: len - 7 })], form: RowForm::WriteRow, offers: vec![] };
                let prog = Program { steps: vec![Step::Set { cols: vec![ColSpec::simple("a", T_LONG, 0), ColSpec::simple("b", T_LONG_BLOB, 0)], rows: vec![row], end: SetEnd::Finish }] };
                let mut conv = Conversation::new(
                    vec![Cmd::Ping, Cmd::Query { text: Blob::Text { seed: i as u32 + 20, len: len - 1 } }, Cmd::Query { text: Blob::text("small") }, Cmd::Ping],
                    vec![Action::Result(prog), Action::Result(Program::completed(1, 2))],
                );
                conv.hs = Handshake {
                    kind: HsKind::V41 { caps: CAP_LONG_PASSWORD | CAP_PROTOCOL_41 | CAP_SSL | CAP_SECURE_CONNECTION | CAP_MULTI_RESULTS, max_packet: 1 << 24, charset: 0x21, user: b"tlsuser".to_vec(), tail: vec![0] },
                    seq: 2,
                    user_pad: 0,
                    tail_pad: 0,
                    reserved: vec![],
                };
                conv.lockstep = lockstep;
                conv.sched = Schedule { sizes: vec![36 + 100, 16_384, 1 << 20], hot: vec![], big: 0, write_accept: vec![] };
                v.push(Case { conv, tls_offered: true, server_asks_client_cert: false, client_cert: false, tls13: i % 2 == 0, alpn_pad: 0, sslreq_320_user: None, hello_record_minor: None });
            }
        }
        v
    }
    fn exec(&self, case: &Case) -> Exec {
        let mut ex = Exec::default();
        let c = &case.conv;
        let fx = crate::tlsfix::fixtures();
        let server_cfg = if case.tls_offered { Some(if case.server_asks_client_cert { fx.server_client_auth.clone() } else { fx.server_plain.clone() }) } else { None };
        // client messages inside TLS
        let (caps, user) = match &c.hs.kind {
            HsKind::V41 { caps, user, .. } => (*caps, user.clone()),
            HsKind::V320 { caps, user, .. } => (*caps as u32, user.clone()),
            _ => (CAP_PROTOCOL_41 | CAP_SSL, vec![]),
        };
        let mut ssl_req = Vec::new();
        match &case.sslreq_320_user {
            None => {
                let mut p = ssl_request(caps, 1 << 24, 0x21);
                p[9..32].copy_from_slice(&c.hs.reserved23());
                frame_into(&mut ssl_req, &p, 1);
            }
            Some(u) => {
                ex.class("ssl-request-in-3.20-layout");
                frame_into(&mut ssl_req, &handshake320((CAP_LONG_PASSWORD | CAP_SSL) as u16, 0xff_ffff, u, &[]), 1);
            }
        }
        #[allow(non_snake_case)]
        let SSLREQ_LEN: usize = ssl_req.len();
        let mut messages = Vec::new();
        let mut m0 = Vec::new();
        frame_into(&mut m0, &c.hs.payload(), 2);
        messages.push(m0);
        let mut kinds = vec![ReplyKind::OkOrErr];
        for sc in &c.cmds {
            let mut m = Vec::new();
            frame_into(&mut m, &sc.cmd.payload(), sc.seq);
            messages.push(m);
            kinds.push(sc.cmd.reply_kind());
        }
        let (mut peer, log) = TlsClientPeer::new(client_config(case.tls13, case.client_cert, case.alpn_pad), ssl_req, messages, kinds.clone(), c.lockstep);
        peer.hello_record_minor = case.hello_record_minor;
        if let Some(m) = case.hello_record_minor {
            ex.class(format!("client-hello-record-version-3.{}", m));
        }
        let tr = Transport::new(Vec::new(), c.sched.clone(), Fault::None);
        tr.0.borrow_mut().peer = Some(Box::new(peer));
        let o = run_raw_tls(c, tr, server_cfg);
        let log = log.borrow();

        // classification: did a read straddle the SSLRequest / ClientHello boundary?
        let straddle = o.ops.iter().any(|op| op.kind == OpKind::Read && op.n > 0 && op.at < SSLREQ_LEN && op.at + op.n > SSLREQ_LEN);
        ex.nontrivial = straddle;
        if straddle {
            ex.class("read-straddles-sslrequest/clienthello");
        }
        if o.ops.iter().any(|op| op.kind == OpKind::Read && op.n > 0 && op.at < SSLREQ_LEN && op.at + op.n < SSLREQ_LEN) {
            ex.class("read-ends-inside-sslrequest");
        }
        ex.class(if case.tls13 { "tls1.3" } else { "tls1.2" });
        if log.client_hello_len > 4096 {
            ex.class("client-hello>4096");
            if o.ops.iter().any(|op| op.kind == OpKind::Read && op.at < SSLREQ_LEN && op.at + op.n > SSLREQ_LEN + 4096) {
                ex.class("read-delivers-sslrequest+>4096-bytes-of-hello");
            }
        }
        if case.client_cert && case.server_asks_client_cert {
            ex.class("client-certificate-presented");
        }
        if caps & CAP_SSL == 0 {
            ex.class("encrypted-response-without-the-ssl-bit");
        }
        ex.class(if c.lockstep { "lock-step" } else { "pipelined" });
        if log.decrypted.len() > 65_536 {
            ex.class("response-stream>64KiB-over-TLS");
        }
        if log.decrypted.len() > MAX_PAYLOAD {
            ex.class("message-longer-than-a-wire-packet-over-TLS");
        }

        if let RunResult::Panic(p) = &o.result {
            ex.fail(format!("c18-panic|{}", panic_signature(p)), format!("run_on panicked: {}", o.result.brief()));
            return ex;
        }
        if !case.tls_offered {
            ex.class("tls-not-offered");
            if !o.result.is_err() {
                ex.fail("c18-tls-not-offered-accepted", format!("client requested TLS from a shim that offers none; run_on returned {}", o.result.brief()));
            }
            if !o.events.is_empty() {
                ex.fail("c18-tls-not-offered-callback", format!("callback ran although TLS had to be refused: {}", o.events[0].brief()));
            }
            return ex;
        }
        if let Some(e) = &log.tls_error {
            ex.fail("c18-tls-stream-corrupt", format!("the TLS client rejects the server's byte stream: {} (run_on: {})", e, o.result.brief()));
            return ex;
        }
        if o.would_block {
            ex.fail("c18-client-hangs", format!("the server waits for input while the TLS client is still owed a reply (handshake done: {}, messages sent {}, run_on: {})", log.handshake_done, log.sent_messages, o.result.brief()));
            return ex;
        }
        if c.reject_auth.is_some() {
            ex.class("shim-refuses-the-client-inside-the-TLS-session");
            if !matches!(o.result, RunResult::ErrTagged(_)) {
                ex.fail("c18-reject-result", format!("after_authentication refused the client but run_on returned {}", o.result.brief()));
                return ex;
            }
        } else if !o.result.is_ok() {
            ex.fail("c18-run-result", format!("run_on returned {} (TLS handshake done: {}, client messages sent: {})", o.result.brief(), log.handshake_done, log.sent_messages));
            return ex;
        }
        // nothing in plaintext after the greeting
        if let Err(e) = all_tls_records(&log.post_greeting) {
            ex.fail("c18-plaintext-after-upgrade", format!("server bytes after the greeting are not all TLS records: {}", e));
            return ex;
        }
        if log.negotiated_tls13 != Some(case.tls13) {
            ex.fail("c18-version", format!("negotiated TLS1.3={:?}, client offered only TLS1.3={}", log.negotiated_tls13, case.tls13));
        }
        // after_authentication: user from the encrypted response, client chain
        match o.events.first() {
            Some(Event::Auth { user: got, certs }) => {
                if got.as_deref() != Some(&user[..]) {
                    ex.fail("c18-username", format!("after_authentication got user {:?}, the encrypted handshake response carries {:?}", got.as_ref().map(|u| hex(u)), hex(&user)));
                }
                let want_certs = if case.client_cert && case.server_asks_client_cert { Some(vec![fx.client_cert.clone()]) } else { None };
                if certs != &want_certs {
                    ex.fail("c18-client-certs", format!("after_authentication got {:?} client certificates, client presented {:?}", certs.as_ref().map(|c| c.len()), want_certs.as_ref().map(|c| c.len())));
                }
                if o.events.iter().filter(|e| matches!(e, Event::Auth { .. })).count() != 1 {
                    ex.fail("c18-auth-count", "after_authentication called more than once".to_string());
                }
            }
            other => {
                ex.fail("c18-no-auth", format!("first callback is {:?}", other.map(|e| e.brief())));
                return ex;
            }
        }
        // differential: same conversation in plaintext
        let mut plain = c.clone();
        match &mut plain.hs.kind {
            HsKind::V41 { caps, .. } => *caps &= !CAP_SSL,
            HsKind::V320 { caps, .. } => *caps &= !(CAP_SSL as u16),
            _ => {}
        }
        plain.hs.seq = 1;
        plain.sched = Schedule::all_at_once();
        plain.lockstep = false;
        let po = run_with(&plain, None, false);
        let (pphys, pused) = split_packets(&po.out);
        let (pmsgs, _) = reassemble(&po.out, &pphys);
        let (tphys, tused) = split_packets(&log.decrypted);
        let (tmsgs, _) = reassemble(&log.decrypted, &tphys);
        if tused != log.decrypted.len() || pused != po.out.len() {
            ex.fail("c18-decrypted-framing", format!("decrypted stream has {} stray bytes", log.decrypted.len() - tused));
            return ex;
        }
        let p_payloads: Vec<&Vec<u8>> = pmsgs.iter().skip(1).map(|m| &m.payload).collect();
        let t_payloads: Vec<&Vec<u8>> = tmsgs.iter().map(|m| &m.payload).collect();
        if p_payloads != t_payloads {
            let n = p_payloads.iter().zip(&t_payloads).position(|(a, b)| a != b).unwrap_or(p_payloads.len().min(t_payloads.len()));
            ex.fail(
                "c18-differs-from-plaintext",
                format!("over TLS the server sent {} messages, in plaintext {}; first difference at message {} (TLS: {:?}, plaintext: {:?})", t_payloads.len(), p_payloads.len(), n, t_payloads.get(n).map(|p| hex(p)), p_payloads.get(n).map(|p| hex(p))),
            );
            return ex;
        }
        if o.events.len() != po.events.len() || o.events.iter().zip(&po.events).skip(1).any(|(a, b)| a != b) {
            ex.fail("c18-callbacks-differ-from-plaintext", format!("callback logs differ: {} over TLS, {} in plaintext", o.events.len(), po.events.len()));
        }
        // sequence ids of the decrypted replies: auth reply follows id 2
        if let Some(p) = tphys.first() {
            if p.seq != 3 {
                ex.fail("c18-auth-reply-seq", format!("reply to the encrypted handshake response (id 2) carries id {}", p.seq));
            }
        }
        ex
    }
}
