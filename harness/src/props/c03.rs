//! C03 — exactly one complete, protocol-conformant response per command.

use crate::conv::*;
use crate::engine::*;
use crate::gen::G;
use crate::gens::*;
use crate::model::*;
use crate::shim::*;
use crate::vals::*;
use crate::wire::*;
use serde::{Deserialize, Serialize};

pub struct C03;

#[derive(Clone, Debug, Serialize, Deserialize)]
pub enum Contradiction {
    TooFew,
    TooMany,
    NullIntoNotNull,
    ForeignType,
}

#[derive(Clone, Debug, Serialize, Deserialize)]
pub struct Case {
    pub conv: Conversation,
    /// if set: command index whose program has a shape-contradicting row at (step, row)
    pub contradiction: Option<(usize, usize, usize, Contradiction)>,
    /// the last row of the first program is left incomplete and the resultset is ended with
    /// finish_error: either that is refused, or the reply is the complete rows followed by ERR
    #[serde(default)]
    pub abandoned_row: bool,
}


fn program_nontrivial(p: &Program) -> bool {
    let units = expected_units(p);
    units.len() >= 2
        || p.steps.iter().any(|s| match s {
            Step::DropResultWriter => true,
            Step::Set { end: SetEnd::DropRowWriter, .. } => true,
            Step::Set { end: SetEnd::FinishError { .. }, rows, .. } => !rows.is_empty(),
            Step::Set { cols, rows, .. } => cols.is_empty() && !rows.is_empty(),
            _ => false,
        })
}

/// a foreign-type value for a binary column
fn foreign_val(coltype: u8) -> Val {
    if is_bytes_type(coltype) {
        Val::plain(Base::I32(7))
    } else if matches!(coltype, T_DATE | T_DATETIME | T_TIMESTAMP | T_TIME | T_FLOAT | T_DOUBLE) {
        Val::plain(Base::StrRef("x".into()))
    } else {
        Val::plain(Base::StrRef("12".into()))
    }
}

fn make_contradiction(g: &mut G<'_>, conv: &mut Conversation) -> Option<(usize, usize, usize, Contradiction)> {
    // choose a command with a program that has a set with >= 1 column and give it a bad row
    let mut ai = 0usize;
    let exps_len = conv.cmds.len();
    let mut candidates = Vec::new(); // (cmd index, action index, step index, bin)
    let mut live_actions = conv.actions.iter();
    for (ci, sc) in conv.cmds.iter().enumerate() {
        let consumes = match &sc.cmd {
            Cmd::Query { text } => {
                let t = text.bytes();
                !is_builtin_probe(&t) && !(conv.default_init && is_use_stmt(&t))
            }
            Cmd::Prepare { .. } | Cmd::Execute { .. } => true,
            Cmd::InitDb { .. } => !conv.default_init,
            _ => false,
        };
        if !consumes {
            continue;
        }
        if let Some(Action::Result(p)) = live_actions.next() {
            for (si, s) in p.steps.iter().enumerate() {
                if let Step::Set { cols, .. } = s {
                    if !cols.is_empty() && cols.len() < 60 {
                        candidates.push((ci, ai, si, matches!(sc.cmd, Cmd::Execute { .. })));
                    }
                }
            }
        }
        ai += 1;
    }
    let _ = exps_len;
    if candidates.is_empty() {
        return None;
    }
    let (ci, ai, si, bin) = *g.pick(&candidates);
    let kind = if bin { g.below(4) } else { g.below(2) };
    if let Action::Result(p) = &mut conv.actions[ai] {
        if let Step::Set { cols, rows, .. } = &mut p.steps[si] {
            let snapshot = cols.clone();
            let mut cells: Vec<Val> = snapshot.iter().map(|c| gen_cell(g, c, bin)).collect();
            let form = *g.pick(&[RowForm::WriteRow, RowForm::Cols, RowForm::WriteRowRef]);
            let what = match kind {
                0 => {
                    let keep = g.usize_in(0, cells.len() - 1);
                    cells.truncate(keep);
                    Contradiction::TooFew
                }
                1 => {
                    let extra = g.usize_in(1, 3);
                    for _ in 0..extra {
                        cells.push(Val::plain(Base::I8(1)));
                    }
                    Contradiction::TooMany
                }
                2 => {
                    let k = g.below(cells.len() as u64) as usize;
                    // force the column NOT NULL and offer NULL
                    cols[k].flags |= FLAG_NOT_NULL;
                    cells[k] = Val { base: Base::I32(0), wrap: *g.pick(&[Wrap::None, Wrap::RefNone]) };
                    if g.coin() {
                        cells[k] = Val { base: Base::My(MyVal::Null), wrap: Wrap::Plain };
                    }
                    Contradiction::NullIntoNotNull
                }
                _ => {
                    let k = g.below(cells.len() as u64) as usize;
                    cells[k] = foreign_val(snapshot[k].coltype);
                    Contradiction::ForeignType
                }
            };
            let at = g.usize_in(0, rows.len());
            // a ColsOpen row is only legal last; make earlier rows closed
            for r in rows.iter_mut() {
                if r.form == RowForm::ColsOpen {
                    r.form = RowForm::Cols;
                }
            }
            rows.insert(at, RowProg { cells, form, offers: vec![] });
            return Some((ci, si, at, what));
        }
    }
    None
}

impl Prop for C03 {
    type Case = Case;
    fn id(&self) -> &'static str {
        "C03"
    }
    fn canary(&self) -> bool {
        true
    }
    fn rule(&self) -> String {
        "cases = conversations of 1-8 commands (QUERY, PREPARE ok/error, EXECUTE, INIT_DB and `USE` ok/error incl. a shim that keeps the trait's default on_init, PING, FIELD_LIST, SELECT @@ probes, CLOSE, SEND_LONG_DATA) with a sentinel PING after every command; every QUERY/EXECUTE carries a generated writer program (chains of 0-4 complete_one / finish_one units + terminal completed / finish / error / finish_error / dropped RowWriter / no_more_results / dropped QueryResultWriter; 0-300 columns; rows via write_row, write_col+end_row, or left open before finish); 1 in 5 cases adds one shape-contradicting row (too few / too many cells, NULL into NOT NULL, foreign type). Enumerated also: chains of 256 and 65536 (thorough: 255-257, 65535-65537, 131072) resultsets/completions and single resultsets of that many rows, in both protocols. Oracle: abstract interpreter of the program vs. reference response state machine. Non-trivial = some program has >= 2 result units, a drop terminal, an error after >= 1 row, a zero-column set with rows, or a contradicting row.".into()
    }
    fn assumptions(&self) -> Vec<String> {
        vec![
            "replies the library makes itself (PING, FIELD_LIST, SELECT @@) are only required to be one conformant reply of a legal kind".into(),
            "dropping a fresh QueryResultWriter/StatementMetaWriter unused, or a RowWriter mid-row, is documented misuse and not generated; after a refused row-level write the harness shim leaks the RowWriter instead of dropping it mid-row".into(),
        ]
    }
    fn cases(&self, tier: Tier) -> u64 {
        tier.pick(300000, 3000000)
    }
    fn fuzz_plan(&self, tier: Tier) -> Vec<(&'static str, u64)> {
        if tier == Tier::Thorough {
            vec![("prop", 150_000)]
        } else {
            vec![]
        }
    }
    fn choice_len(&self) -> usize {
        4096
    }
    fn gen(&self, g: &mut G<'_>, _tier: Tier) -> Case {
        // one kind of refusal per case: no refusable offers or short rows next to a shape contradiction
        let want_contradiction = g.chance(1, 5);
        g.allow_offers = !want_contradiction;
        let opts = ConvOpts { max_cmds: 8, max_rows: 6, sentinels: true, default_init_sometimes: true, quit_sometimes: true };
        let mut conv = gen_conv(g, &opts);
        let contradiction = if want_contradiction { make_contradiction(g, &mut conv) } else { None };
        conv.forget_on_refusal = contradiction.is_some();
        if contradiction.is_some() {
            // one kind of refusal per case: no refusable offers next to a shape contradiction
            for a in conv.actions.iter_mut() {
                if let Action::Result(p) = a {
                    for st in p.steps.iter_mut() {
                        if let Step::Set { rows, .. } = st {
                            for r in rows.iter_mut() {
                                r.offers.clear();
                            }
                        }
                    }
                }
            }
        }
        let (bytes, ends, _) = client_stream(&conv);
        conv.sched = gen_schedule(g, bytes.len(), &ends);
        Case { conv, contradiction, abandoned_row: false }
    }
    fn fixed(&self, tier: Tier) -> Vec<Case> {
        // a row given up half-way (error while producing its cells) -> finish_error; incl. rows
        // whose first cell already fills a maximal wire packet
        let mut v = Vec::new();
        let lens: &[usize] = match tier {
            Tier::Quick => &[3, 300, MAX_PAYLOAD - 4, MAX_PAYLOAD + 70],
            Tier::Thorough => &[0, 3, 300, 70_000, MAX_PAYLOAD - 5, MAX_PAYLOAD - 4, MAX_PAYLOAD - 3, MAX_PAYLOAD + 70, 2 * MAX_PAYLOAD],
        };
        for (i, &len) in lens.iter().enumerate() {
            for bin in [false, true] {
                let cols = vec![ColSpec::simple("a", T_LONG_BLOB, 0), ColSpec::simple("b", T_LONG_BLOB, 0), ColSpec::simple("c", T_LONG, 0)];
                let full = RowProg { cells: vec![Val::plain(Base::Slice(b"x".to_vec())), Val::plain(Base::Slice(b"y".to_vec())), Val::plain(Base::I32(1))], form: RowForm::WriteRow, offers: vec![] };
                let partial = RowProg { cells: vec![Val::plain(Base::BigBytes { seed: i as u32, len })], form: RowForm::ColsOpen, offers: vec![] };
                let prog = Program { steps: vec![Step::Set { cols, rows: vec![full, partial], end: SetEnd::FinishError { kind: 1105, msg: b"gave up".to_vec() } }] };
                let mut conv = if bin {
                    Conversation::new(
                        vec![Cmd::Prepare { text: Blob::text("p") }, Cmd::Execute { id: 1, params: vec![], send_types: false, flags: 0, iterations: 1 }, Cmd::Ping],
                        vec![Action::Prepare(PrepProg::Reply { id: 1, params: vec![], cols: vec![] }), Action::Result(prog)],
                    )
                } else {
                    Conversation::new(vec![Cmd::Query { text: Blob::text("q") }, Cmd::Ping], vec![Action::Result(prog)])
                };
                conv.forget_on_refusal = true;
                v.push(Case { conv, contradiction: None, abandoned_row: true });
            }
        }
        // "commands that expect no reply produce no bytes", however much they carry in total: long
        // data accumulating on one parameter beyond the 64 MiB the server advertises as
        // max_allowed_packet (each chunk far below it), then the execution and a ping
        {
            let mut cmds = vec![Cmd::Prepare { text: Blob::text("p") }];
            let nchunks = match tier {
                Tier::Quick => 5,
                Tier::Thorough => 9,
            };
            for i in 0..nchunks {
                cmds.push(Cmd::LongData { id: 1, param: 0, data: Blob::Pat { seed: 90 + i, len: (14 << 20) + i as usize } });
                if i == 2 {
                    cmds.push(Cmd::Ping);
                }
            }
            cmds.push(Cmd::Execute { id: 1, params: vec![Param { coltype: T_BLOB, unsigned: false, value: PVal::LongData }], send_types: true, flags: 0, iterations: 1 });
            cmds.push(Cmd::Ping);
            let conv = Conversation::new(
                cmds,
                vec![Action::Prepare(PrepProg::Reply { id: 1, params: vec![ColSpec::simple("p0", T_BLOB, 0)], cols: vec![] }), Action::Result(Program::completed(1, 0))],
            );
            v.push(Case { conv, contradiction: None, abandoned_row: false });
        }
        // responses whose unit and row counts cross 2^8 and 2^16: chains of 255-257 and 65535-65537
        // resultsets / completions, resultsets of 65535-65537 rows
        let counts: &[usize] = match tier {
            Tier::Quick => &[256, 65_536],
            Tier::Thorough => &[255, 256, 257, 65_535, 65_536, 65_537, 131_072],
        };
        for (i, &n) in counts.iter().enumerate() {
            for bin in [false, true] {
                let cols = vec![ColSpec::simple("a", T_LONG, 0)];
                let row = |k: usize| RowProg { cells: vec![Val::plain(Base::I32(k as i32))], form: if k % 2 == 0 { RowForm::WriteRow } else { RowForm::Cols }, offers: vec![] };
                // (a) a chain of n units
                let mut steps: Vec<Step> = (0..n - 1)
                    .map(|k| if k % 3 == 2 { Step::Set { cols: cols.clone(), rows: vec![row(k)], end: SetEnd::FinishOne } } else { Step::CompleteOne { rows: k as u64, id: 0 } })
                    .collect();
                steps.push(if i % 2 == 0 { Step::Completed { rows: 1, id: 1 } } else { Step::Set { cols: cols.clone(), rows: vec![], end: SetEnd::Finish } });
                // (b) one resultset of n rows
                let many = Program { steps: vec![Step::Set { cols: cols.clone(), rows: (0..n).map(row).collect(), end: SetEnd::Finish }] };
                for prog in [Program { steps }, many] {
                    let conv = if bin {
                        Conversation::new(
                            vec![Cmd::Prepare { text: Blob::text("p") }, Cmd::Execute { id: 1, params: vec![], send_types: false, flags: 0, iterations: 1 }, Cmd::Ping],
                            vec![Action::Prepare(PrepProg::Reply { id: 1, params: vec![], cols: vec![] }), Action::Result(prog)],
                        )
                    } else {
                        Conversation::new(vec![Cmd::Query { text: Blob::text("q") }, Cmd::Ping], vec![Action::Result(prog)])
                    };
                    v.push(Case { conv, contradiction: None, abandoned_row: false });
                }
            }
        }
        v
    }
    fn exec(&self, case: &Case) -> Exec {
        let mut ex = Exec::default();
        let c = &case.conv;
        let o = run_with(c, None, false);
        if case.abandoned_row {
            ex.nontrivial = true;
            ex.class("row-abandoned-with-finish_error");
            let kinds: Vec<ReplyKind> = c.cmds.iter().map(|sc| sc.cmd.reply_kind()).collect();
            let d = decode_output(&o.out, &kinds);
            if let RunResult::Panic(p) = &o.result {
                ex.fail(format!("c03-panic|{}", panic_signature(p)), format!("panic when a row is abandoned with finish_error: {}", o.result.brief()));
                return ex;
            }
            let refused = o.calls.iter().any(|k| !k.ok);
            if refused {
                if !o.result.is_err() {
                    ex.fail("c03-abandoned-row-result", format!("finish_error failed but run_on returned {}", o.result.brief()));
                }
                if let Some(p) = &d.problem {
                    if !d.truncated_only {
                        ex.fail("c03-abandoned-row-garbage", format!("after a refused finish_error the bytes already sent are malformed: {}", p));
                    }
                }
            } else {
                // accepted: exactly one conformant response (the complete row, then ERR), client command-ready
                if let Some(p) = &d.problem {
                    ex.fail("c03-abandoned-row-garbage", format!("finish_error reported success, but the client cannot decode the response: {}", p));
                    return ex;
                }
                let idx = c.cmds.len() - 2;
                match d.replies.get(idx).map(|r| &r.units[..]) {
                    Some([Unit::Set { rows, end_err: Some(_), .. }]) if rows.len() == 1 => {}
                    other => ex.fail("c03-abandoned-row-reply", format!("expected the one complete row followed by ERR, got {:?}", other.map(|u| u.iter().map(|x| x.brief()).collect::<Vec<_>>()))),
                }
                if d.stray_msgs != 0 {
                    ex.fail("c03-stray-output", format!("{} stray packets after the last expected reply", d.stray_msgs));
                }
            }
            return ex;
        }
        let exps = expectations(c);
        let kinds: Vec<ReplyKind> = c.cmds.iter().map(|sc| sc.cmd.reply_kind()).collect();
        // classification
        let mut nontrivial = case.contradiction.is_some();
        for a in &c.actions {
            if let Action::Result(p) = a {
                if program_nontrivial(p) {
                    nontrivial = true;
                }
                for s in &p.steps {
                    match s {
                        Step::DropResultWriter => ex.class("terminal:drop-result-writer"),
                        Step::NoMoreResults => ex.class("terminal:no_more_results"),
                        Step::Set { end: SetEnd::DropRowWriter, .. } => ex.class("terminal:drop-row-writer"),
                        Step::Set { end: SetEnd::FinishError { .. }, .. } => ex.class("terminal:finish_error"),
                        Step::Set { cols, rows, .. } if cols.is_empty() && !rows.is_empty() => ex.class("zero-column-set-with-rows"),
                        Step::CompleteOne { .. } => ex.class("complete_one"),
                        Step::Set { end: SetEnd::FinishOne, .. } => ex.class("finish_one"),
                        _ => {}
                    }
                }
            }
        }
        if c.default_init && c.cmds.iter().any(|sc| matches!(&sc.cmd, Cmd::InitDb { .. }) || matches!(&sc.cmd, Cmd::Query{text} if is_use_stmt(&text.bytes()))) {
            ex.class("default-on_init-used");
            nontrivial = true;
        }
        ex.nontrivial = nontrivial;

        if let Some((ci, si, ri, what)) = &case.contradiction {
            ex.class(format!("contradiction:{:?}", what));
            // which callback index is that?  count fallible callbacks up to command ci
            // (auth is callback 0); simpler: find the writer calls tagged with (si, ri) in the
            // callback that ran the program of command ci.  We identify it by order: the
            // calls of the LAST callback that started are the ones of the failing program.
            // the conversation ends with the program that contains the bad row, so its calls are
            // those of the last callback that made any
            let last_cb = o.calls.last().map(|k| k.callback);
            let mine: Vec<&WriterCall> = o.calls.iter().filter(|k| Some(k.callback) == last_cb).collect();
            let failing: Vec<&&WriterCall> = mine.iter().filter(|k| !k.ok).collect();
            let _ = ci;
            // a refusal no later than the call that would commit the bad row (finish commits an open last row)
            let refused = failing.iter().any(|k| match k.row {
                Some((s, r)) => (s, r) <= (*si, *ri),
                None => k.name == "finish" || k.name == "finish_one" || k.name == "finish_error",
            });
            let bad_row_committed_ok = mine.iter().any(|k| k.ok && k.row == Some((*si, *ri)) && (k.name == "write_row" || k.name == "end_row"));
            if bad_row_committed_ok || !refused {
                ex.fail(
                    "c03-contradiction-accepted",
                    format!("a row contradicting the declared shape ({:?} at set {} row {}) was accepted: no writer call returned Err (result {})", what, si, ri, o.result.brief()),
                );
            }
            // whatever was flushed must be a prefix of a conformant stream
            let d = decode_output(&o.out[..o.flushed], &kinds);
            if let Some(p) = &d.problem {
                if !d.truncated_only {
                    ex.fail("c03-malformed-after-contradiction", format!("flushed output is malformed: {}", p));
                }
            }
            if let RunResult::Panic(p) = &o.result {
                ex.fail(format!("c03-panic|{}", panic_signature(p)), format!("panic on a shape-contradicting row: {}", o.result.brief()));
            } else if !o.result.is_err() {
                ex.fail("c03-contradiction-result", format!("the shim propagated the refusal but run_on returned {}", o.result.brief()));
            }
            return ex;
        }

        if case.conv.actions.iter().any(|a| matches!(a, Action::Result(p) if p.steps.iter().any(|s| matches!(s, Step::Set { rows, .. } if rows.iter().any(|r| r.form == RowForm::ShortEndRow))))) {
            ex.class("short-row-ended-with-end_row");
        }
        if o.failed_after_refused_offer && !o.result.is_panic() {
            // the library refused a contradicting write_col and then also what followed on the same
            // RowWriter: outside "every way ... that reports success"; nothing malformed may have
            // gone out, and the error the shim propagated must end the connection
            ex.class("writer-unusable-after-a-refusal");
            let d = decode_output(&o.out[..o.flushed], &kinds);
            if let Some(p) = &d.problem {
                if !d.truncated_only {
                    ex.fail("c03-malformed-after-contradiction", format!("flushed output is malformed: {}", p));
                }
            }
            if !o.result.is_err() {
                ex.fail("c03-contradiction-result", format!("the shim propagated the refusal but run_on returned {}", o.result.brief()));
            }
            return ex;
        }
        // long data piling up beyond the advertised max_allowed_packet (64 MiB) on one parameter: a
        // server may end the connection over it; then nothing malformed and nothing for the chunks
        // may have been sent
        // (index of the command whose chunk crosses the limit)
        let over_limit: Option<usize> = {
            let mut pending: std::collections::HashMap<(u32, u16), usize> = Default::default();
            let mut over = None;
            for (i, sc) in c.cmds.iter().enumerate() {
                match &sc.cmd {
                    Cmd::LongData { id, param, data } => {
                        let e = pending.entry((*id, *param)).or_insert(0);
                        *e += data.len();
                        if *e > (1 << 26) && over.is_none() {
                            over = Some(i);
                        }
                    }
                    Cmd::Execute { id, .. } | Cmd::Close { id } => pending.retain(|(s, _), _| s != id),
                    _ => {}
                }
            }
            over
        };
        if let (Some(ci), true) = (over_limit, o.result.is_err()) {
            // the connection must have ended *at* that chunk: everything before it answered, and not
            // a byte more (a long-data command has no reply, refused or not)
            ex.class("over-limit-long-data-ended-the-connection");
            let d = decode_output(&o.out, &kinds[..ci]);
            if d.problem.is_some() || d.stray_msgs != 0 || d.trailing_bytes != 0 || d.replies.len() != kinds[..ci].len() {
                ex.fail(
                    "c03-bytes-for-refused-long-data",
                    format!("run_on returned {} over long data beyond the advertised limit, but the output is not exactly the replies to the {} commands before that chunk: {:?}, {} stray packets, {} stray bytes", o.result.brief(), ci, d.problem, d.stray_msgs, d.trailing_bytes),
                );
            }
            return ex;
        }
        if !o.result.is_ok() {
            ex.fail("c03-run-result", format!("run_on returned {} for a conversation whose writer calls all report success", o.result.brief()));
            if o.result.is_panic() {
                return ex;
            }
        }
        if o.calls.iter().any(|k| !k.ok) {
            let k = o.calls.iter().find(|k| !k.ok).unwrap();
            ex.fail("c03-writer-call-failed", format!("writer call {} failed in a shape-conforming program", k.name));
        }
        if let Some(a) = o.offers_accepted.first() {
            ex.fail("c03-contradicting-call-accepted", format!("a writer call that contradicts the declared row shape reported success: {}", a.chars().take(300).collect::<String>()));
        }
        if o.offers_refused > 0 {
            ex.class("row-continued-after-refused-write_col");
            ex.count("offers_refused", o.offers_refused as u64);
        }
        if !o.mismatches.is_empty() || o.leftover_actions != 0 {
            ex.fail("c03-callback-mismatch", format!("callbacks do not match the script: {:?}, {} programs unused", o.mismatches, o.leftover_actions));
        }
        let d = decode_output(&o.out, &kinds);
        if let Some(p) = &d.problem {
            // name the command for the message
            ex.fail("c03-nonconformant", format!("client decoder rejects the server's output: {} [commands: {}]", p, c.cmds.iter().map(|s| s.cmd.name()).collect::<Vec<_>>().join(",")));
            return ex;
        }
        if d.stray_msgs != 0 || d.trailing_bytes != 0 {
            ex.fail("c03-stray-output", format!("{} stray packets / {} stray bytes after the last expected reply", d.stray_msgs, d.trailing_bytes));
        }
        if o.flushed != o.out.len() {
            ex.fail("c03-unflushed", format!("{} bytes written but never flushed", o.out.len() - o.flushed));
        }
        for (i, (e, r)) in exps.iter().zip(&d.replies).enumerate() {
            if let Err(m) = check_reply(e, r, false) {
                ex.fail("c03-reply-differs", format!("command {} ({}): {}", i, c.cmds[i].cmd.name(), m));
                break;
            }
            // the sentinel: a PING's reply is one OK whose sequence id is request id + 1
            if matches!(c.cmds[i].cmd, Cmd::Ping) {
                let seqs = d.seqs_of(r);
                if seqs != vec![c.cmds[i].seq.wrapping_add(1)] {
                    ex.fail("c03-sentinel-shifted", format!("sentinel PING (command {}) answered with sequence ids {:?}", i, seqs));
                    break;
                }
            }
        }
        ex
    }
}
