//! C15 — integer results are exact or refused, never silently altered.

use crate::engine::*;
use crate::gen::G;
use crate::model::*;
use crate::props::c07::single_write;
use crate::vals::*;
use crate::wire::*;
use serde::{Deserialize, Serialize};

pub struct C15;

pub const INT_COLTYPES: [u8; 6] = [T_TINY, T_SHORT, T_YEAR, T_INT24, T_LONG, T_LONGLONG];

#[derive(Clone, Debug, Serialize, Deserialize)]
pub enum Values {
    /// every value of the (8- or 16-bit) type
    All,
    /// explicit values given as i128-compatible pairs (value as i64 bits, is_u64)
    List(Vec<(u64, bool)>),
}

#[derive(Clone, Debug, Serialize, Deserialize)]
pub struct Case {
    /// 0..10 = u8,i8,u16,i16,u32,i32,u64,i64,usize,isize; 10 = Value::Int, 11 = Value::UInt
    pub rust_type: usize,
    pub coltype: u8,
    pub unsigned: bool,
    pub values: Values,
    /// also send a sample through a real binary resultset
    pub wire: bool,
    /// other column flag bits (ZEROFILL, BINARY, NUM, ...): they must not change which range applies
    #[serde(default)]
    pub extra_flags: u16,
    /// `(binary protocol?, d)`: instead of the encoder-level check, the accepted values travel as
    /// the cells after a byte string that fills the row up to `d` bytes from the 2^24-1-byte
    /// packet boundary (d < 0: before it), so that their encodings start before, on and after the
    /// boundary and straddle it
    #[serde(default)]
    pub straddle: Option<(bool, i64)>,
}

fn base_of(rust_type: usize, v: i128) -> Option<Base> {
    Some(match rust_type {
        0 => Base::U8(u8::try_from(v).ok()?),
        1 => Base::I8(i8::try_from(v).ok()?),
        2 => Base::U16(u16::try_from(v).ok()?),
        3 => Base::I16(i16::try_from(v).ok()?),
        4 => Base::U32(u32::try_from(v).ok()?),
        5 => Base::I32(i32::try_from(v).ok()?),
        6 => Base::U64(u64::try_from(v).ok()?),
        7 => Base::I64(i64::try_from(v).ok()?),
        8 => Base::Usize(u64::try_from(v).ok()?),
        9 => Base::Isize(i64::try_from(v).ok()?),
        10 => Base::My(MyVal::Int(i64::try_from(v).ok()?)),
        _ => Base::My(MyVal::UInt(u64::try_from(v).ok()?)),
    })
}

fn type_range(rust_type: usize) -> (i128, i128) {
    match rust_type {
        0 => (0, u8::MAX as i128),
        1 => (i8::MIN as i128, i8::MAX as i128),
        2 => (0, u16::MAX as i128),
        3 => (i16::MIN as i128, i16::MAX as i128),
        4 => (0, u32::MAX as i128),
        5 => (i32::MIN as i128, i32::MAX as i128),
        6 | 8 | 11 => (0, u64::MAX as i128),
        _ => (i64::MIN as i128, i64::MAX as i128),
    }
}

const TYPE_NAMES: [&str; 12] = ["u8", "i8", "u16", "i16", "u32", "i32", "u64", "i64", "usize", "isize", "Value::Int", "Value::UInt"];

/// all 2^k, 2^k +- 1, -(2^k), -(2^k) +- 1 and the range bounds that fit the type
fn boundary_values(rust_type: usize) -> Vec<i128> {
    let (lo, hi) = type_range(rust_type);
    let mut v = vec![lo, lo + 1, hi, hi - 1, 0, 1, -1];
    for k in 0..=64u32 {
        let p = 1i128 << k;
        for d in [-1i128, 0, 1] {
            v.push(p + d);
            v.push(-p + d);
        }
    }
    // ... and around the powers of ten (where the decimal length changes)
    for k in 0..=19u32 {
        let p = 10i128.pow(k);
        for d in [-2i128, -1, 0, 1] {
            v.push(p + d);
            v.push(-p - d);
        }
    }
    v.retain(|x| *x >= lo && *x <= hi);
    v.sort();
    v.dedup();
    v
}

fn enc(v: i128) -> (u64, bool) {
    if v < 0 {
        (v as i64 as u64, false)
    } else {
        (v as u64, true)
    }
}
fn dec(p: &(u64, bool)) -> i128 {
    if p.1 {
        p.0 as i128
    } else {
        p.0 as i64 as i128
    }
}

fn judge(rust_type: usize, v: i128, col: &ColSpec, ex: &mut Exec, refused_by_panic: &mut u64, accepted: &mut u64, refused: &mut u64) -> Option<(String, String)> {
    let base = base_of(rust_type, v)?;
    let val = Val::plain(base.clone());
    let (r, _) = single_write(&val, col);
    let expect = bin_expect(&base, col.coltype, col.unsigned());
    let name = TYPE_NAMES[rust_type];
    let colname = format!("{}{}", if col.unsigned() { "UNSIGNED " } else { "" }, col.coltype);
    let _ = ex;
    match r {
        Ok(Ok(bytes)) => {
            *accepted += 1;
            let mut c = Cur::new(&bytes);
            let got = match parse_bin_value(&mut c, col.coltype, col.unsigned()) {
                Ok(BinVal::Int(i)) => i as i128,
                Ok(BinVal::UInt(u)) => u as i128,
                other => return Some(("c15-undecodable".into(), format!("{} {} -> column {}: output {} decodes as {:?}", name, v, colname, hex(&bytes), other))),
            };
            if !c.done() {
                return Some(("c15-width".into(), format!("{} {} -> column {}: {} bytes written, wire width differs", name, v, colname, bytes.len())));
            }
            if got != v {
                return Some(("c15-altered".into(), format!("{} {} written to column type {} was accepted but the client decodes {}", name, v, colname, got)));
            }
            if expect == BinExpect::Refuse {
                // accepted although out of range, yet decoded equal?  impossible; kept for completeness
                return Some(("c15-altered".into(), format!("{} {} cannot be represented by column {} but was accepted", name, v, colname)));
            }
            None
        }
        Ok(Err(e)) => {
            *refused += 1;
            if let BinExpect::Accept(_) = expect {
                return Some(("c15-wrongly-refused".into(), format!("{} {} must be accepted by column type {} (its range contains {}) but was refused: {}", name, v, colname, if rust_type == 8 || rust_type == 9 { "the value" } else { "the whole Rust type" }, e)));
            }
            None
        }
        Err(p) => {
            *refused += 1;
            *refused_by_panic += 1;
            if let BinExpect::Accept(_) = expect {
                return Some((format!("c15-wrongly-refused-panic|{}", panic_signature(&p)), format!("{} {} must be accepted by column type {} but the encoder panicked: {}", name, v, colname, p.msg)));
            }
            None
        }
    }
}

impl Prop for C15 {
    type Case = Case;
    fn id(&self) -> &'static str {
        "C15"
    }
    fn canary(&self) -> bool {
        true
    }
    fn rule(&self) -> String {
        "cases = (Rust integer type in {u8,i8,u16,i16,u32,i32,u64,i64,usize,isize} or generic Value::Int/UInt) x (column type in {TINY,SHORT,YEAR,INT24,LONG,LONGLONG} x {signed,unsigned}) (optionally with other column flag bits such as ZEROFILL or BINARY set, which must not matter) x a set of values: ALL values for 8- and 16-bit types (enumerated, exhaustive), all 2^k, 2^k+-1, -(2^k)+-1 and range bounds for wider types (enumerated), plus random wide values. Every other value of a set is first written to a writer that breaks after 0-2 bytes (text and binary encoders), and the next value written to a healthy writer on the same thread must be exactly itself (no encoder state survives a failed write). Each value goes through the public encoder to_mysql_bin; oracle: Ok => bytes decoded at the column's wire width and signedness equal the value as a mathematical integer; it must be accepted when the column's range contains the whole fixed-width Rust type (for usize/isize: the value); otherwise any refusal is fine. A sample additionally travels through a real binary resultset, as the second cell of a two-column row next to a column of the opposite signedness, written both column-by-column and as write_col + write_row; every third such resultset follows, in the same reply, a nine-column resultset whose last row the shim gave up when its first value (NULL for a NOT NULL column) was refused. Enumerated (and 1 in 4000 generated) cases send the accepted values, in the text and in the binary protocol, as the cells that follow a byte string filling the row up to d bytes from the 2^24-1-byte packet boundary (d = -70..1), so that integer encodings start before, on and after the boundary and straddle it. Non-trivial = the value set contains a value the column cannot represent, or a value outside i8's range.".into()
    }
    fn assumptions(&self) -> Vec<String> {
        vec!["a deliberate assert! panic of the encoder counts as a refusal (nothing is sent)".into()]
    }
    fn exhaustive_note(&self, _tier: Tier) -> Option<String> {
        Some("all values of u8, i8, u16, i16 for all 12 integer column kinds; all listed boundary values of the wider types".into())
    }
    fn cases(&self, tier: Tier) -> u64 {
        tier.pick(400000, 4000000)
    }
    fn fuzz_plan(&self, tier: Tier) -> Vec<(&'static str, u64)> {
        if tier == Tier::Thorough {
            vec![("prop", 100000_u64)]
        } else {
            vec![]
        }
    }
    fn choice_len(&self) -> usize {
        64
    }
    fn gen(&self, g: &mut G<'_>, _tier: Tier) -> Case {
        let rust_type = *g.pick(&[4usize, 5, 6, 7, 8, 9, 10, 11, 6, 7, 8, 9]);
        let (lo, hi) = type_range(rust_type);
        let n = g.usize_in(1, 6);
        let mut vals = Vec::new();
        for _ in 0..n {
            let v: i128 = if lo < 0 { g.i64_biased() as i128 } else { g.u64_biased() as i128 };
            let v = if v < lo || v > hi {
                // fold into range without losing the bias
                lo + (v - lo).rem_euclid(hi - lo + 1)
            } else {
                v
            };
            vals.push(enc(v));
        }
        let extra_flags = match g.weighted(&[4, 2, 2]) {
            0 => 0,
            1 => *g.pick(&[64u16, 128, 512, 0x8000, 2, 4096]),
            _ => g.raw() as u16 & !(FLAG_UNSIGNED | FLAG_NOT_NULL),
        };
        Case { rust_type, coltype: *g.pick(&INT_COLTYPES), unsigned: g.coin(), values: Values::List(vals), wire: g.chance(1, 10), extra_flags, straddle: if g.chance(1, 4000) && !g.fuzzing { Some((g.coin(), g.irange(-70, 1))) } else { None } }
    }
    fn fixed(&self, _tier: Tier) -> Vec<Case> {
        let mut v = Vec::new();
        for rust_type in 0..12 {
            for &coltype in &INT_COLTYPES {
                for unsigned in [false, true] {
                    // once with no other flag, once with every other flag bit set (ZEROFILL, BINARY, NUM, ...)
                    for extra_flags in [0u16, 0xffff & !(FLAG_UNSIGNED | FLAG_NOT_NULL)] {
                        if rust_type < 4 {
                            v.push(Case { rust_type, coltype, unsigned, values: Values::All, wire: false, extra_flags, straddle: None });
                        } else {
                            v.push(Case { rust_type, coltype, unsigned, values: Values::List(boundary_values(rust_type).into_iter().map(enc).collect()), wire: extra_flags == 0, extra_flags, straddle: None });
                        }
                    }
                }
            }
        }
        // integers around a packet boundary of a long row, in both protocols
        for (i, &d) in [-30i64, -17, -9, -4, -2, -1, 0].iter().enumerate() {
            for bin in [false, true] {
                let rust_type = [7usize, 6, 5, 4, 10, 11, 9][i];
                let (lo, hi) = type_range(rust_type);
                let vals: Vec<(u64, bool)> = [lo, hi, 0, lo / 3, hi / 7, 12_345, hi - 1].iter().map(|&v| enc(v)).collect();
                v.push(Case { rust_type, coltype: T_LONGLONG, unsigned: lo >= 0, values: Values::List(vals), wire: false, extra_flags: 0, straddle: Some((bin, d)) });
            }
        }
        v
    }
    fn exec(&self, case: &Case) -> Exec {
        if let Some((bin, d)) = case.straddle {
            return exec_straddle(case, bin, d);
        }
        let mut ex = Exec::default();
        let col = ColSpec { table: "t".into(), name: "c".into(), coltype: case.coltype, flags: (if case.unsigned { FLAG_UNSIGNED } else { 0 }) | (case.extra_flags & !(FLAG_UNSIGNED | FLAG_NOT_NULL)) };
        if case.extra_flags != 0 {
            ex.class("column-with-other-flag-bits");
        }
        let values: Vec<i128> = match &case.values {
            Values::All => {
                let (lo, hi) = type_range(case.rust_type);
                (lo..=hi).collect()
            }
            Values::List(l) => l.iter().map(dec).collect(),
        };
        ex.class(format!("type:{}", TYPE_NAMES[case.rust_type]));
        // An encoder that failed half-way (the connection broke while a cell was written) must not
        // influence what the same thread encodes next, for this or any other connection: every
        // other value is first written to a writer that breaks after 0-2 bytes, in both protocols,
        // and the following write to a healthy writer must give exactly the next value.
        {
            let column = col.to_column();
            let mut prev: Option<i128> = None;
            for (k, &v) in values.iter().take(16).enumerate() {
                let base = match base_of(case.rust_type, v) {
                    Some(b) => b,
                    None => continue,
                };
                let val = Val::plain(base);
                if k % 2 == 0 {
                    let _ = catch(|| {
                        let _ = dispatch(&val, &mut FailingTextSink(k % 3));
                        let _ = dispatch(&val, &mut FailingBinSink { left: k % 3, col: &column });
                    });
                    prev = Some(v);
                    continue;
                }
                let mut out = Vec::new();
                if let Ok(Ok(())) = catch(|| dispatch(&val, &mut TextSink(&mut out))) {
                    let mut c = Cur::new(&out);
                    let got = c.lenenc_bytes().ok().flatten().and_then(|b| String::from_utf8(b.to_vec()).ok()).and_then(|t| t.parse::<i128>().ok());
                    if got != Some(v) || !c.done() {
                        ex.fail(
                            "c15-altered-after-failed-write",
                            format!("{} {} written in the text protocol right after a write of {:?} to a broken writer arrives as {:?} ({} bytes)", TYPE_NAMES[case.rust_type], v, prev, got, out.len()),
                        );
                        return ex;
                    }
                    ex.count("values_written_after_a_failed_write", 1);
                }
            }
        }
        let (mut rp, mut acc, mut refu) = (0u64, 0u64, 0u64);
        let mut first: Option<(String, String)> = None;
        for &v in &values {
            if let Some(f) = judge(case.rust_type, v, &col, &mut ex, &mut rp, &mut acc, &mut refu) {
                if first.is_none() {
                    first = Some(f);
                }
            }
        }
        ex.count("values_checked", values.len() as u64);
        ex.count("accepted", acc);
        ex.count("refused", refu);
        ex.note_n("refused_by_panic (assert! in the encoder; nothing is sent)", rp);
        ex.nontrivial = refu > 0 || values.iter().any(|v| *v > 127 || *v < -128);
        if let Some((k, m)) = first {
            ex.fail(k, m);
            return ex;
        }
        if case.wire {
            // Every value of the set once more through a real binary resultset, as the second cell of
            // a two-column row whose first column has the same width and the opposite signedness,
            // written in the unusual but legal order write_col(first) + write_row(rest): accepted =>
            // the client decodes exactly the value; refusals are fine.
            use crate::conv::*;
            use crate::shim::*;
            ex.class("wire-sample");
            let other = ColSpec { table: "t".into(), name: "a".into(), coltype: case.coltype, flags: col.flags ^ FLAG_UNSIGNED };
            let mut n_wire = 0u64;
            for (k, &v) in values.iter().take(24).enumerate() {
                let base = match base_of(case.rust_type, v) {
                    Some(b) => b,
                    None => continue,
                };
                n_wire += 1;
                let form = if k % 2 == 0 { RowForm::Mixed(1) } else { RowForm::Cols };
                let first = if other.unsigned() { Val::plain(Base::U8(1)) } else { Val::plain(Base::I8(-1)) };
                let first = if matches!(single_write(&first, &other).0, Ok(Ok(_))) { first } else { Val { base: Base::U8(0), wrap: Wrap::None } };
                let rows = vec![RowProg { cells: vec![first, Val::plain(base.clone())], form, offers: vec![] }];
                let mut steps = vec![Step::Set { cols: vec![other.clone(), col.clone()], rows, end: SetEnd::Finish }];
                if k % 3 == 2 {
                    // the connection's history: just before, a wider resultset (two bitmap bytes) whose
                    // last row the shim gave up when its first value (NULL for a NOT NULL column) was
                    // refused - nothing of that row may show in what comes next
                    let wide: Vec<ColSpec> = (0..9).map(|i| ColSpec { table: "w".into(), name: format!("w{}", i), coltype: T_LONG, flags: FLAG_NOT_NULL }).collect();
                    let full = RowProg { cells: (0..9).map(|i| Val::plain(Base::I32(i))).collect(), form: RowForm::WriteRow, offers: vec![] };
                    let given_up = RowProg { cells: vec![], form: RowForm::ColsOpen, offers: vec![(0, Val { base: Base::I32(0), wrap: Wrap::None })] };
                    steps.insert(0, Step::Set { cols: wide, rows: vec![full, given_up], end: SetEnd::FinishOne });
                    ex.class("wire-sample-after-a-wider-set-with-a-row-given-up");
                }
                let mut conv = Conversation::new(
                    vec![Cmd::Prepare { text: Blob::text("p") }, Cmd::Execute { id: 1, params: vec![], send_types: false, flags: 0, iterations: 1 }],
                    vec![Action::Prepare(PrepProg::Reply { id: 1, params: vec![], cols: vec![] }), Action::Result(Program { steps })],
                );
                conv.forget_on_refusal = true;
                let o = run_with(&conv, None, false);
                if k % 3 == 2 && o.offers_refused != 1 {
                    ex.fail("c15-wire-null-accepted", format!("NULL offered to a NOT NULL column was not refused ({:?})", o.offers_accepted));
                    return ex;
                }
                if o.failed_after_refused_offer && !o.result.is_panic() {
                    // (a writer that is unusable after a refusal: nothing more to learn here)
                    ex.class("wire-sample:writer-unusable-after-the-refusal");
                    continue;
                }
                let refused = o.calls.iter().any(|c| !c.ok) || o.result.is_panic();
                if refused {
                    // must not have been refused if the model says it must be accepted
                    if let BinExpect::Accept(_) = bin_expect(&base, col.coltype, col.unsigned()) {
                        ex.fail("c15-wire-wrongly-refused", format!("{} {} must be accepted by column {} but the row was refused on the wire ({})", TYPE_NAMES[case.rust_type], v, col.coltype, o.result.brief()));
                        return ex;
                    }
                    continue;
                }
                let kinds: Vec<ReplyKind> = conv.cmds.iter().map(|sc| sc.cmd.reply_kind()).collect();
                let d = decode_output(&o.out, &kinds);
                if !o.result.is_ok() || d.problem.is_some() {
                    ex.fail("c15-wire", format!("binary resultset with an accepted integer failed: {} / {:?}", o.result.brief(), d.problem));
                    return ex;
                }
                let got = match d.replies.get(1).map(|r| &r.units[..]) {
                    Some([.., Unit::Set { rows: Rows::Bin(r), .. }]) if r.len() == 1 && r[0].len() == 2 => match &r[0][1] {
                        BinVal::Int(i) => Some(*i as i128),
                        BinVal::UInt(u) => Some(*u as i128),
                        _ => None,
                    },
                    _ => None,
                };
                if got != Some(v) {
                    ex.fail("c15-wire-altered", format!("{} {} written to column type {}{} through a RowWriter ({:?}) was accepted but the client decodes {:?}", TYPE_NAMES[case.rust_type], v, if col.unsigned() { "UNSIGNED " } else { "" }, col.coltype, form, got));
                    return ex;
                }
            }
            ex.count("values_sent_through_a_resultset", n_wire);
        }
        ex
    }
}


/// see `Case::straddle`
fn exec_straddle(case: &Case, bin: bool, d: i64) -> Exec {
    use crate::conv::*;
    use crate::shim::*;
    let mut ex = Exec::default();
    ex.class(if bin { "integers-around-a-packet-boundary(binary)" } else { "integers-around-a-packet-boundary(text)" });
    ex.nontrivial = true;
    let col = ColSpec { table: "t".into(), name: "c".into(), coltype: case.coltype, flags: if case.unsigned { FLAG_UNSIGNED } else { 0 } };
    let values: Vec<i128> = match &case.values {
        Values::All => vec![0, 1],
        Values::List(l) => l.iter().map(|&(bits, is_u)| if is_u { bits as i128 } else { bits as i64 as i128 }).collect(),
    };
    // only values the column must take (text protocol: everything is taken)
    let cells: Vec<Val> = values
        .iter()
        .filter_map(|&v| base_of(case.rust_type, v))
        .filter(|b| !bin || matches!(bin_expect(b, col.coltype, col.unsigned()), BinExpect::Accept(_)))
        .take(8)
        .map(Val::plain)
        .collect();
    if cells.is_empty() {
        return ex;
    }
    let ncols = 1 + cells.len();
    let head = if bin { 1 + (ncols + 7 + 2) / 8 } else { 0 };
    let len = (MAX_PAYLOAD as i64 + d) as usize - head - 4;
    let mut cols = vec![ColSpec::simple("fill", T_LONG_BLOB, 0)];
    cols.extend(cells.iter().map(|_| col.clone()));
    let mut row_cells = vec![Val::plain(Base::BigBytes { seed: (d + 100) as u32, len })];
    row_cells.extend(cells.iter().cloned());
    ex.count("values_sent_around_a_packet_boundary", cells.len() as u64);
    let rows = vec![RowProg { cells: row_cells, form: if d % 2 == 0 { RowForm::WriteRow } else { RowForm::Cols }, offers: vec![] }];
    let prog = Program { steps: vec![Step::Set { cols, rows, end: SetEnd::Finish }] };
    let (conv, idx) = if bin {
        (
            Conversation::new(
                vec![Cmd::Prepare { text: Blob::text("p") }, Cmd::Execute { id: 1, params: vec![], send_types: false, flags: 0, iterations: 1 }, Cmd::Ping],
                vec![Action::Prepare(PrepProg::Reply { id: 1, params: vec![], cols: vec![] }), Action::Result(prog)],
            ),
            1,
        )
    } else {
        (Conversation::new(vec![Cmd::Query { text: Blob::text("q") }, Cmd::Ping], vec![Action::Result(prog)]), 0)
    };
    let o = run_with(&conv, None, false);
    if let RunResult::Panic(p) = &o.result {
        ex.fail(format!("c15-panic|{}", panic_signature(p)), format!("run_on panicked: {}", o.result.brief()));
        return ex;
    }
    if !o.result.is_ok() {
        ex.fail("c15-straddle-run-result", format!("run_on returned {} (failing writer call: {:?})", o.result.brief(), o.calls.iter().find(|k| !k.ok).map(|k| k.name)));
        return ex;
    }
    let kinds: Vec<ReplyKind> = conv.cmds.iter().map(|sc| sc.cmd.reply_kind()).collect();
    let dd = decode_output(&o.out, &kinds);
    if let Some(p) = &dd.problem {
        ex.fail("c15-straddle-altered", format!("integers written {} bytes from a packet boundary: the client cannot decode the row: {}", d, p));
        return ex;
    }
    let exps = expectations(&conv);
    if let Err(m) = check_reply(&exps[idx], &dd.replies[idx], true) {
        ex.fail("c15-straddle-altered", format!("integers written {} bytes from a packet boundary: {}", d, m.chars().take(400).collect::<String>()));
    }
    ex
}
