//! C12 — the server never waits for input while it owes a flushed reply.
//! Safety invariant evaluated at every read() call (the only place the server can wait).

use crate::conv::*;
use crate::engine::*;
use crate::gen::G;
use crate::gens::*;
use crate::shim::*;
use crate::transport::*;
use crate::wire::*;
use serde::{Deserialize, Serialize};

pub struct C12;

#[derive(Clone, Debug, Serialize, Deserialize)]
pub struct Case {
    pub conv: Conversation,
}

impl Prop for C12 {
    type Case = Case;
    fn id(&self) -> &'static str {
        "C12"
    }
    fn rule(&self) -> String {
        "cases = C03-style conversations x arrival schedule: strict lock-step (the embedded reference client releases message i+1 only after the reply to message i has been decoded from *flushed* bytes), fully pipelined, or chunkings that end reads after k complete commands plus a partial one; short transport writes; 1 in 5 conversations has one reply of 254-1026 packets (around the multiples of 256); 1 in 6 pads a query so that a message or a burst is exactly 4096*2^k bytes on the wire (a read that exactly fills the receive buffer). Enumerated also: 2-3 multi-packet (17-33 MB) queries pipelined and delivered by reads larger than a packet (one giant read, 17-50 MiB reads). Oracle, at every read() call: with M = client messages wholly contained in the bytes delivered so far, the bytes covered by the last flush() decode to the greeting plus a complete reply to every reply-expecting message in M; in lock-step mode the server must never call read() while the client is still owed a reply ('would block forever') and every command must be served. Non-trivial = some read delivered >= 2 whole commands, or lock-step with >= 3 exchanges.".into()
    }
    fn assumptions(&self) -> Vec<String> {
        vec!["invariant over a blocking in-memory transport, not a kernel socket; plaintext only (C18 applies the lock-step detection over TLS)".into()]
    }
    fn cases(&self, tier: Tier) -> u64 {
        tier.pick(250000, 2500000)
    }
    fn choice_len(&self) -> usize {
        4096
    }
    fn gen(&self, g: &mut G<'_>, _tier: Tier) -> Case {
        let opts = ConvOpts { max_cmds: 8, max_rows: 3, sentinels: false, default_init_sometimes: true, quit_sometimes: true };
        let mut conv = gen_conv(g, &opts);
        // sometimes one long reply: packet counts around the multiples of 256 where an 8-bit
        // packet counter comes back to its start
        if g.chance(1, 5) {
            let idx: Vec<usize> = conv.actions.iter().enumerate().filter(|(_, a)| matches!(a, Action::Result(_))).map(|(i, _)| i).collect();
            if !idx.is_empty() {
                let ai = *g.pick(&idx);
                let ncols = g.usize_in(1, 3);
                // reply packets = 1 (count) + ncols + 1 (EOF) + rows + 1 (EOF)
                let target = *g.pick(&[255usize, 256, 257, 511, 512, 513, 768, 1024]) + g.usize_in(0, 2) - 1;
                let rows = target.saturating_sub(ncols + 3);
                let cols: Vec<crate::vals::ColSpec> = (0..ncols).map(|i| crate::vals::ColSpec::simple(&format!("c{}", i), T_LONG, 0)).collect();
                let rows: Vec<RowProg> = (0..rows).map(|r| RowProg { cells: (0..ncols).map(|c| crate::vals::Val::plain(crate::vals::Base::I32((r + c) as i32))).collect(), form: RowForm::WriteRow, offers: vec![] }).collect();
                conv.actions[ai] = Action::Result(Program { steps: vec![Step::Set { cols, rows, end: SetEnd::Finish }] });
            }
        }
        // sometimes one reply of 64 KiB - 4 MiB in total (log-uniform) made of rows of 1-100 KB and
        // ended, half of the time, by a long error message: the *volume* written since the last flush
        // and the size of the reply's last packet are what an output queue with a high-water mark
        // would care about
        if !g.fuzzing && g.chance(1, 60) {
            let idx: Vec<usize> = conv.actions.iter().enumerate().filter(|(_, a)| matches!(a, Action::Result(_))).map(|(i, _)| i).collect();
            if !idx.is_empty() {
                let ai = *g.pick(&idx);
                // total = 2^(16 + x), x in [0, 6)
                let x = g.below(6000) as f64 / 1000.0;
                let total = (65_536.0 * x.exp2()) as usize;
                let cell = *g.pick(&[1_000usize, 10_000, 100_000]) + g.usize_in(0, 999);
                let nrows = (total / (cell + 4)).max(1);
                let cols = vec![crate::vals::ColSpec::simple("c", T_LONG_BLOB, 0)];
                let mut rows: Vec<RowProg> =
                    (0..nrows).map(|r| RowProg { cells: vec![crate::vals::Val::plain(crate::vals::Base::BigBytes { seed: r as u32, len: cell })], form: RowForm::WriteRow, offers: vec![] }).collect();
                // a last row that brings the volume to a random point, not a multiple of the cell size
                rows.push(RowProg { cells: vec![crate::vals::Val::plain(crate::vals::Base::BigBytes { seed: 9, len: g.usize_in(0, cell) })], form: RowForm::WriteRow, offers: vec![] });
                let end = if g.coin() { SetEnd::Finish } else { SetEnd::FinishError { kind: 1105, msg: crate::gen::pattern(g.raw(), *g.pick(&[20usize, 3_000, 9_000, 40_000, 69_000]) + g.usize_in(0, 999)) } };
                conv.actions[ai] = Action::Result(Program { steps: vec![Step::Set { cols, rows, end }] });
            }
        }
        // sometimes pad one query so that a message (or everything up to it) ends exactly where a
        // receive buffer of 4096 * 2^k bytes would be full
        if g.chance(1, 6) {
            let (_, ends, _) = client_stream_meta(&conv);
            let qs: Vec<usize> = conv.cmds.iter().enumerate().filter(|(_, sc)| matches!(sc.cmd, Cmd::Query { .. }) && sc.cmd.reply_kind() == ReplyKind::Query).map(|(i, _)| i).collect();
            if !qs.is_empty() {
                let qi = *g.pick(&qs);
                if let Cmd::Query { text } = &conv.cmds[qi].cmd {
                    let t = text.bytes();
                    if !crate::model::is_builtin_probe(&t) && !crate::model::is_use_stmt(&t) && !t.is_empty() {
                        let target = 4096usize << g.below(3);
                        // either the message alone is `target` bytes on the wire, or the stream up to its end is
                        let start = if qi == 0 { ends[0] } else { ends[qi] };
                        let msg_len = 4 + 1 + t.len();
                        let want_total = if g.coin() { target } else { target.saturating_sub(start % target).max(msg_len) };
                        if want_total > msg_len {
                            let mut t2 = t.clone();
                            t2.extend(std::iter::repeat(b' ').take(want_total - msg_len));
                            conv.cmds[qi].cmd = Cmd::Query { text: Blob::Lit(t2) };
                        }
                    }
                }
            }
        }
        if g.chance(1, 2500) && !g.fuzzing {
            // 2-3 pipelined commands of 1-3 packets each, delivered by reads of 17-40 MB (as much
            // as the receive buffer takes), then the client waits
            let n = g.usize_in(2, 3);
            let mut cmds = Vec::new();
            let mut actions = Vec::new();
            for k in 0..n {
                let len = match g.below(4) {
                    0 => MAX_PAYLOAD + g.usize_in(0, 200),
                    1 => MAX_PAYLOAD + g.usize_in(1 << 20, 8 << 20),
                    2 => 2 * MAX_PAYLOAD + g.usize_in(0, 200) - 100,
                    _ => 2 * MAX_PAYLOAD + g.usize_in(1 << 20, 12 << 20),
                };
                cmds.push(Cmd::Query { text: Blob::Text { seed: g.raw(), len } });
                actions.push(Action::Result(Program::completed(k as u64, 0)));
            }
            cmds.push(Cmd::Ping);
            let mut big = Conversation::new(cmds, actions);
            big.sched = Schedule { sizes: (0..g.usize_in(1, 3)).map(|_| g.usize_in(17 << 20, 40 << 20)).collect(), hot: vec![], big: 0, write_accept: vec![] };
            big.lockstep = false;
            return Case { conv: big };
        }
        // sometimes the conversation ends with an EXECUTE of a statement id that is not live (closed
        // before, or never prepared).  The connection ends there - with or without an ERR for the
        // client - but the server must not go back to waiting for input with that ERR unflushed.
        let mut invalid_tail = false;
        if g.chance(1, 10) && !conv.cmds.iter().any(|sc| matches!(sc.cmd, Cmd::Quit)) {
            conv.cmds.push(SeqCmd { cmd: Cmd::Execute { id: 900_000 + g.below(50) as u32, params: vec![], send_types: false, flags: 0, iterations: 1 }, seq: 0 });
            invalid_tail = true;
        }
        let (len, ends, _) = client_stream_meta(&conv);
        conv.sched = gen_schedule(g, len, &ends);
        conv.lockstep = invalid_tail || g.chance(2, 5);
        Case { conv }
    }
    fn fixed(&self, tier: Tier) -> Vec<Case> {
        // a lock-step client exchanging >= 16 MiB requests and replies
        use crate::vals::*;
        let mut v = Vec::new();
        let lens: &[usize] = match tier {
            Tier::Quick => &[MAX_PAYLOAD],
            Tier::Thorough => &[MAX_PAYLOAD - 1, MAX_PAYLOAD, MAX_PAYLOAD + 9, 2 * MAX_PAYLOAD],
        };
        for (i, &len) in lens.iter().enumerate() {
            for lockstep in [true, false] {
                let big_row = RowProg { cells: vec![Val::plain(Base::BigBytes { seed: i as u32, len: len - 5 })], form: RowForm::WriteRow, offers: vec![] };
                let prog = Program { steps: vec![Step::Set { cols: vec![ColSpec::simple("c", T_LONG_BLOB, 0)], rows: vec![big_row], end: SetEnd::Finish }] };
                let mut conv = Conversation::new(
                    vec![Cmd::Query { text: Blob::Text { seed: 9, len: len - 1 } }, Cmd::Ping, Cmd::Query { text: Blob::text("small") }, Cmd::Ping],
                    vec![Action::Result(Program::completed(1, 1)), Action::Result(prog)],
                );
                conv.lockstep = lockstep;
                conv.sched = Schedule::fixed(1 << 21);
                v.push(Case { conv });
            }
        }
        // several multi-packet commands pipelined, delivered by reads that are themselves larger
        // than a packet (one giant read; 17, 20, 34 MiB reads): a read may end anywhere inside a
        // later command, with the earlier ones complete in the same buffer
        let scheds: Vec<Schedule> = match tier {
            Tier::Quick => vec![Schedule::all_at_once(), Schedule::fixed(20 << 20)],
            Tier::Thorough => vec![Schedule::all_at_once(), Schedule::fixed((17 << 20) + 3), Schedule::fixed(20 << 20), Schedule::fixed(34 << 20), Schedule::fixed(50 << 20)],
        };
        for (i, sched) in scheds.into_iter().enumerate() {
            for ncmd in [2usize, 3] {
                if tier == Tier::Quick && ncmd == 3 && i == 1 {
                    continue;
                }
                let mut cmds = Vec::new();
                let mut actions = Vec::new();
                for k in 0..ncmd {
                    // (the first one long enough that the library's receive buffer, which doubles,
                    // has room for a read of more than a packet while it is still incomplete)
                    let len = if k == 0 { 2 * MAX_PAYLOAD + 5 } else { [2 * MAX_PAYLOAD + 5, MAX_PAYLOAD + (3 << 20), MAX_PAYLOAD + 77][(k + i) % 3] };
                    cmds.push(Cmd::Query { text: Blob::Text { seed: (i * 10 + k) as u32 + 40, len } });
                    actions.push(Action::Result(Program::completed(k as u64, 1)));
                }
                cmds.push(Cmd::Ping);
                let mut conv = Conversation::new(cmds, actions);
                conv.lockstep = false;
                conv.sched = sched.clone();
                v.push(Case { conv });
            }
        }
        v
    }
    fn exec(&self, case: &Case) -> Exec {
        let mut ex = Exec::default();
        let c = &case.conv;
        let o = run_with(c, None, false);
        let mut kinds = vec![ReplyKind::OkOrErr];
        kinds.extend(c.cmds.iter().map(|sc| sc.cmd.reply_kind()));
        let n_exchanges = kinds.iter().filter(|k| **k != ReplyKind::None).count();
        // reads that delivered >= 2 whole commands
        let mut multi = false;
        for op in o.ops.iter().filter(|op| op.kind == OpKind::Read && op.n > 0) {
            let whole = o.msg_ends.iter().enumerate().filter(|(i, &e)| {
                let start = if *i == 0 { 0 } else { o.msg_ends[*i - 1] };
                start >= op.at && e <= op.at + op.n
            }).count();
            if whole >= 2 {
                multi = true;
                break;
            }
        }
        ex.nontrivial = multi || (c.lockstep && n_exchanges >= 3);
        ex.class(if c.lockstep { "lock-step" } else { "pipelined" });
        if multi {
            ex.class("read-delivers>=2-commands");
        }
        if c.cmds.iter().filter(|sc| sc.cmd.payload_len_hint() >= MAX_PAYLOAD).count() >= 2 {
            ex.class(">=2-multi-packet-commands-pipelined");
            if o.ops.iter().any(|op| op.kind == OpKind::Read && op.n > MAX_PAYLOAD + 4) {
                ex.class("read-larger-than-a-packet");
            }
        }
        if let RunResult::Panic(p) = &o.result {
            ex.fail(format!("c12-panic|{}", panic_signature(p)), format!("run_on panicked: {}", o.result.brief()));
            return ex;
        }
        if c.lockstep && o.would_block {
            ex.fail("c12-would-block", format!("lock-step client hangs: the server called read() while the client was still waiting for a flushed reply (served {} callbacks, consumed {} of {} bytes)", o.events.len(), o.consumed, o.inbound_len));
            return ex;
        }
        let invalid_tail = matches!(c.cmds.last().map(|sc| &sc.cmd), Some(Cmd::Execute { id, .. }) if (900_000..900_050).contains(id));
        if invalid_tail {
            ex.class("ends-with-execute-of-a-dead-statement-id");
        }
        if !o.result.is_ok() && !(invalid_tail && o.result.is_err()) {
            ex.fail("c12-run-result", format!("run_on returned {}", o.result.brief()));
            return ex;
        }
        // invariant at every read
        let mut seen: std::collections::HashSet<(usize, usize)> = Default::default();
        for (k, op) in o.ops.iter().enumerate().filter(|(_, op)| op.kind == OpKind::Read) {
            let m = o.msg_ends.iter().filter(|&&e| e <= op.at).count();
            if !seen.insert((m, op.flushed)) {
                continue;
            }
            match complete_replies(&o.out[..op.flushed], &kinds) {
                None => {
                    ex.fail("c12-greeting-unflushed", format!("operation {}: server reads before the greeting was flushed", k));
                    break;
                }
                Some(n) => {
                    if n < m {
                        ex.fail(
                            "c12-owes-reply",
                            format!(
                                "operation {}: server waits for input after receiving {} whole client messages ({} bytes) but only {} of their replies are in the {} flushed bytes ({} written)",
                                k, m, op.at, n, op.flushed, op.at_out_hint(&o)
                            ),
                        );
                        break;
                    }
                }
            }
        }
        // everything delivered must have been served by the end
        if o.consumed == o.inbound_len && !invalid_tail {
            let done = complete_replies(&o.out[..o.flushed], &kinds).unwrap_or(0);
            let quit_at = c.cmds.iter().position(|sc| matches!(sc.cmd, Cmd::Quit)).map(|i| i + 1).unwrap_or(kinds.len());
            if done < quit_at {
                ex.fail("c12-unanswered-at-end", format!("connection ended with {} of {} client messages answered in flushed bytes", done, quit_at));
            }
        }
        ex
    }
}

trait OutHint {
    fn at_out_hint(&self, o: &Outcome) -> usize;
}
impl OutHint for Op {
    fn at_out_hint(&self, o: &Outcome) -> usize {
        // bytes written before this op
        o.ops.iter().take_while(|x| !std::ptr::eq(*x, self)).filter(|x| x.kind == OpKind::Write).map(|x| x.n).sum()
    }
}
