//! C16 — bound parameter types persist per statement across executions.
//! Also hosts the statement-history machinery shared with C17.

use crate::conv::*;
use crate::engine::*;
use crate::gen::G;
use crate::props::stmt::*;
use crate::shim::*;
use crate::vals::*;
use crate::wire::*;
use serde::{Deserialize, Serialize};
use std::collections::HashMap;

pub struct C16;

#[derive(Clone, Debug, Serialize, Deserialize)]
pub enum Op {
    /// execute statement `stmt` (index), rebinding types if `rebind`; the shim pulls only the
    /// first `take` parameters from the iterator (None = all of them)
    Exec {
        stmt: usize,
        params: Vec<Param>,
        rebind: bool,
        #[serde(default)]
        take: Option<usize>,
        /// the shim answers this execution with an error of this kind instead of OK (what the
        /// shim replies must not change what is bound or pending for later executions)
        #[serde(default)]
        reply_err: Option<u16>,
    },
    /// COM_STMT_SEND_LONG_DATA for (stmt, param)
    Long { stmt: usize, param: u16, data: Vec<u8> },
    /// another command in between
    Ping,
    /// PREPARE answered again with the same id and parameter count (a shim that hands out the
    /// same id for the same text): the statement starts afresh
    Reprepare {
        stmt: usize,
        /// the client sends COM_STMT_CLOSE for the id first (pending long data is abandoned by the
        /// close, the next PREPARE hands the id out again)
        #[serde(default)]
        close_first: bool,
    },
}

#[derive(Clone, Debug, Serialize, Deserialize)]
pub struct Case {
    /// (statement id, declared parameter count)
    pub stmts: Vec<(u32, usize)>,
    pub ops: Vec<Op>,
    /// after the history: PREPARE answered once more with the id and parameter count of statement
    /// `.0` (a new statement under an id that is still open), then an execution of it that binds no
    /// types, with parameters `.1` encoded per the *old* statement's types.  No types were ever
    /// bound for the new statement, so there is no way to decode it: it must not reach the shim.
    #[serde(default)]
    pub tail_unbound: Option<(usize, Vec<Param>)>,
    /// how the tail's new statement comes about: 0 = PREPARE answered with the still-open id;
    /// 1 = the client first CLOSEs the old statement, the new one gets the same id; 2 / 3 = CLOSE,
    /// then the new statement gets another id (old id + 5000) with as many / one fewer parameters
    /// (state recycled from a closed statement must not carry its types either)
    #[serde(default)]
    pub tail_mode: u8,
}

/// Build the conversation of a statement history and the model's expectation of every
/// execution the shim must see.
pub fn build_history(case: &Case) -> (Conversation, Vec<(u32, Vec<(u8, Inner, Option<Conv>, Option<String>)>)>) {
    let mut cmds = Vec::new();
    let mut actions = Vec::new();
    for (id, n) in &case.stmts {
        cmds.push(Cmd::Prepare { text: Blob::text("p") });
        actions.push(Action::Prepare(PrepProg::Reply { id: *id, params: (0..*n).map(|i| ColSpec::simple(&format!("p{}", i), T_VAR_STRING, 0)).collect(), cols: vec![] }));
    }
    let mut pending: HashMap<(usize, u16), Vec<u8>> = HashMap::new();
    let mut want = Vec::new();
    let mut takes: Vec<Option<usize>> = Vec::new();
    for op in &case.ops {
        match op {
            Op::Ping => cmds.push(Cmd::Ping),
            Op::Reprepare { stmt, close_first } => {
                let (id, n) = case.stmts[*stmt];
                if *close_first {
                    cmds.push(Cmd::Close { id });
                }
                cmds.push(Cmd::Prepare { text: Blob::text("p") });
                actions.push(Action::Prepare(PrepProg::Reply { id, params: (0..n).map(|i| ColSpec::simple(&format!("p{}", i), T_VAR_STRING, 0)).collect(), cols: vec![] }));
                pending.retain(|(s, _), _| s != stmt);
            }
            Op::Long { stmt, param, data } => {
                cmds.push(Cmd::LongData { id: case.stmts[*stmt].0, param: *param, data: Blob::Lit(data.clone()) });
                pending.entry((*stmt, *param)).or_default().extend_from_slice(data);
            }
            Op::Exec { stmt, params, rebind, take, reply_err } => {
                cmds.push(Cmd::Execute { id: case.stmts[*stmt].0, params: params.clone(), send_types: *rebind, flags: 0, iterations: 1 });
                actions.push(Action::Result(match reply_err {
                    Some(kind) => Program { steps: vec![Step::Error { kind: *kind, msg: b"the statement failed".to_vec() }] },
                    None => Program::completed(0, 0),
                }));
                takes.push(*take);
                let n = case.stmts[*stmt].1;
                let seen = params
                    .iter()
                    .enumerate()
                    .take(take.unwrap_or(usize::MAX))
                    .map(|(i, p)| {
                        let ld = pending.get(&(*stmt, i as u16)).map(|v| &v[..]);
                        expected_seen(p, ld)
                    })
                    .collect();
                // delivered to exactly one execution
                for i in 0..n.max(params.len()) {
                    pending.remove(&(*stmt, i as u16));
                }
                // long data addressed beyond the declared parameters is dropped with the rest
                pending.retain(|(s, _), _| s != stmt);
                want.push((case.stmts[*stmt].0, seen));
            }
        }
    }
    if let Some((stmt, params)) = &case.tail_unbound {
        let (mut id, mut n) = case.stmts[*stmt];
        let mut params = params.clone();
        if case.tail_mode >= 1 {
            cmds.push(Cmd::Close { id });
        }
        if case.tail_mode >= 2 {
            id = id.wrapping_add(5000);
        }
        if case.tail_mode >= 3 && n >= 2 {
            n -= 1;
            params.truncate(n);
        }
        cmds.push(Cmd::Prepare { text: Blob::text("another statement") });
        actions.push(Action::Prepare(PrepProg::Reply { id, params: (0..n).map(|i| ColSpec::simple(&format!("q{}", i), T_VAR_STRING, 0)).collect(), cols: vec![] }));
        cmds.push(Cmd::Execute { id, params: params.clone(), send_types: false, flags: 0, iterations: 1 });
        actions.push(Action::Result(Program::completed(0, 0)));
    }
    let mut conv = Conversation::new(cmds, actions);
    conv.param_takes = takes;
    (conv, want)
}

pub fn judge_history(prefix: &str, case: &Case, ex: &mut Exec, check_conv: bool) {
    let (conv, want) = build_history(case);
    let o = run_with(&conv, None, check_conv);
    if let RunResult::Panic(p) = &o.result {
        ex.fail(format!("{}-panic|{}", prefix, panic_signature(p)), format!("run_on panicked: {}", o.result.brief()));
        return;
    }
    // long data piling up beyond the 64 MiB the server advertises as max_allowed_packet on one
    // parameter: a server may end the connection over it (as over long data for an unknown id);
    // every execution it *did* serve must still have been served exactly
    // (number of executions sent before the chunk that crosses the limit)
    let over_limit: Option<usize> = {
        let mut pending: std::collections::HashMap<(usize, u16), usize> = Default::default();
        let mut over = None;
        let mut n_exec = 0usize;
        for op in &case.ops {
            match op {
                Op::Long { stmt, param, data } => {
                    let e = pending.entry((*stmt, *param)).or_insert(0);
                    *e += data.len();
                    if *e > (1 << 26) && over.is_none() {
                        over = Some(n_exec);
                    }
                }
                Op::Exec { stmt, .. } => {
                    n_exec += 1;
                    pending.retain(|(s, _), _| s != stmt)
                }
                Op::Reprepare { stmt, .. } => pending.retain(|(s, _), _| s != stmt),
                Op::Ping => {}
            }
        }
        over
    };
    if let (Some(n_before), true) = (over_limit, o.result.is_err()) {
        ex.class("over-limit-long-data-ended-the-connection");
        let execs: Vec<&Event> = o.events.iter().filter(|e| matches!(e, Event::Execute { .. })).collect();
        if execs.len() != n_before {
            ex.fail(format!("{}-exec-count", prefix), format!("{} executions reached the shim; the connection ended over long data beyond the advertised limit, before which the client had sent {}", execs.len(), n_before));
            return;
        }
        for (k, (ev, (id, w))) in execs.iter().zip(&want).enumerate() {
            if let Event::Execute { id: gid, params } = ev {
                if gid != id {
                    ex.fail(format!("{}-id", prefix), format!("execution {} reached the shim with id {}, client sent {}", k, gid, id));
                    return;
                }
                if let Err(m) = compare_seen(params, w, check_conv) {
                    ex.fail(format!("{}-param-differs", prefix), format!("execution {} (statement {}): {}", k, id, m));
                    return;
                }
            }
        }
        // ... and the output is exactly the replies to what came before that chunk (a long-data
        // command has no reply, refused or not)
        let mut pending: std::collections::HashMap<(u32, u16), usize> = Default::default();
        let mut ci = conv.cmds.len();
        for (i, sc) in conv.cmds.iter().enumerate() {
            match &sc.cmd {
                Cmd::LongData { id, param, data } => {
                    let e = pending.entry((*id, *param)).or_insert(0);
                    *e += data.len();
                    if *e > (1 << 26) {
                        ci = i;
                        break;
                    }
                }
                Cmd::Execute { id, .. } | Cmd::Close { id } => pending.retain(|(s, _), _| s != id),
                Cmd::Prepare { .. } => {}
                _ => {}
            }
        }
        let kinds: Vec<ReplyKind> = conv.cmds[..ci].iter().map(|sc| sc.cmd.reply_kind()).collect();
        let d = decode_output(&o.out, &kinds);
        if d.problem.is_some() || d.stray_msgs != 0 || d.trailing_bytes != 0 || d.replies.len() != kinds.len() {
            ex.fail(format!("{}-bytes-for-refused-long-data", prefix), format!("the output is not exactly the replies to the {} commands before the over-limit chunk: {:?}, {} stray packets, {} stray bytes", ci, d.problem, d.stray_msgs, d.trailing_bytes));
        }
        return;
    }
    if !o.result.is_ok() && case.tail_unbound.is_none() {
        ex.fail(format!("{}-run-result", prefix), format!("run_on returned {}", o.result.brief()));
        return;
    }
    let execs: Vec<&Event> = o.events.iter().filter(|e| matches!(e, Event::Execute { .. })).collect();
    if case.tail_unbound.is_some() && execs.len() == want.len() + 1 {
        if let Some(Event::Execute { id, params }) = execs.last() {
            ex.fail(
                format!("{}-unbound-execution-decoded", prefix),
                format!("statement {} was prepared anew and executed without ever binding types, yet the execution reached the shim decoded as [{}] (types of the statement that held the id before)", id, params.iter().map(|p| format!("type {} {}", p.coltype, brief_inner(&p.inner))).collect::<Vec<_>>().join(", ")),
            );
        }
        return;
    }
    if execs.len() != want.len() {
        ex.fail(format!("{}-exec-count", prefix), format!("{} executions reached the shim, client sent {}", execs.len(), want.len()));
        return;
    }
    for (k, (ev, (id, w))) in execs.iter().zip(&want).enumerate() {
        if let Event::Execute { id: gid, params } = ev {
            if gid != id {
                ex.fail(format!("{}-id", prefix), format!("execution {} reached the shim with id {}, client sent {}", k, gid, id));
                return;
            }
            if let Err(m) = compare_seen(params, w, check_conv) {
                ex.fail(format!("{}-param-differs", prefix), format!("execution {} (statement {}): {}", k, id, m));
                return;
            }
        }
    }
    if case.tail_unbound.is_some() {
        // how the refusal is reported (an error return, an ERR packet) is not this property's business
        return;
    }
    // replies: every execute answered
    let kinds: Vec<ReplyKind> = conv.cmds.iter().map(|sc| sc.cmd.reply_kind()).collect();
    let d = decode_output(&o.out, &kinds);
    if let Some(p) = &d.problem {
        ex.fail(format!("{}-nonconformant", prefix), format!("client decoder rejects the output: {}", p));
    }
}

/// values for the types currently in force
fn params_for(g: &mut G<'_>, types: &[(u8, bool)]) -> Vec<Param> {
    types.iter().map(|&(t, u)| gen_param_of(g, t, u, true)).collect()
}

impl Prop for C16 {
    type Case = Case;
    fn id(&self) -> &'static str {
        "C16"
    }
    fn canary(&self) -> bool {
        true
    }
    fn rule(&self) -> String {
        "cases = 2-4 prepared statements with 1-12 parameters and a history of 2-30 executions; each execution picks a statement and either rebinds (new-params-bound = 1 with freshly generated types, or with the bound types changed only in some signedness flags or in a single position) or reuses (flag = 0, no type block; the first execution after a prepare always binds, as the protocol requires); values are encoded per the types in force in the reference model types[stmt]. One execution in six is answered with an error instead of OK; what is bound persists all the same. Oracle: the shim must see exactly the model's (type code, ValueInner) lists for every execution.  In 1 of 5 executions the shim pulls only a prefix of the parameters (possibly none) from the iterator; what that execution bound must persist all the same. One execution in six has one of its parameters streamed beforehand with COM_STMT_SEND_LONG_DATA (types must survive an execution that consumed long data). One history in ten has the shim hand out an id that is still open for a new statement (same parameter count) in mid-history (a third of the time after a COM_STMT_CLOSE of it), after which the next execution binds afresh; one in eight ends with such a new statement being executed *without* binding types (parameters encoded per the old statement's types), which must never reach the shim (half of these tails first CLOSE the old statement, and a third then prepare the new one under another id, with the same or one fewer parameters). Non-trivial = some reuse happens after a rebind of a *different* statement (so a single global type table would be caught), or a reuse follows a rebind to different types of the same statement.".into()
    }
    fn assumptions(&self) -> Vec<String> {
        vec!["the recording shim iterates all parameters of every execution, as every caller in the repository does (the library parses the type block lazily inside the iterator)".into()]
    }
    fn cases(&self, tier: Tier) -> u64 {
        tier.pick(300000, 3000000)
    }
    fn fuzz_plan(&self, tier: Tier) -> Vec<(&'static str, u64)> {
        if tier == Tier::Thorough {
            vec![("prop", 150_000)]
        } else {
            vec![]
        }
    }
    fn choice_len(&self) -> usize {
        6000
    }
    fn gen(&self, g: &mut G<'_>, _tier: Tier) -> Case {
        let ns = g.usize_in(2, 4);
        let stmts: Vec<(u32, usize)> = (0..ns)
            .map(|i| {
                let id = i as u32 + 1 + if g.chance(1, 8) { 1000 * g.below(5) as u32 } else { 0 };
                let maxp = if g.chance(1, 6) { 12 } else { 4 };
                (id, g.usize_in(1, maxp))
            })
            .collect();
        let mut types: Vec<Option<Vec<(u8, bool)>>> = vec![None; ns];
        let maxops = if g.chance(1, 5) { 30 } else { 8 };
        let nops = g.usize_in(2, maxops);
        let mut ops = Vec::new();
        for _ in 0..nops {
            let s = g.below(ns as u64) as usize;
            if types[s].is_some() && g.chance(1, 10) {
                // the shim answers another PREPARE with this (still open) id: a new statement, for
                // which nothing is bound yet
                ops.push(Op::Reprepare { stmt: s, close_first: g.chance(1, 3) });
                types[s] = None;
            }
            let rebind = types[s].is_none() || g.chance(2, 5);
            if rebind {
                let fresh: Vec<(u8, bool)> = (0..stmts[s].1).map(|_| gen_param_type(g)).collect();
                types[s] = Some(match (&types[s], g.below(3)) {
                    // a rebind that differs only slightly from what is bound: same codes with some
                    // signedness flags flipped, or a single position changed
                    (Some(old), 0) => old.iter().map(|&(t, u)| (t, if g.chance(1, 2) { !u } else { u })).collect(),
                    (Some(old), 1) => {
                        let k = g.below(old.len() as u64) as usize;
                        old.iter().enumerate().map(|(i, &tu)| if i == k { fresh[i] } else { tu }).collect()
                    }
                    _ => fresh,
                });
            }
            let mut params = params_for(g, types[s].as_ref().unwrap());
            // sometimes one parameter of this execution is streamed beforehand (long data and type
            // reuse are independent features: what is bound must survive an execution that
            // consumed long data)
            if g.chance(1, 6) {
                let p = g.below(params.len() as u64) as usize;
                let nch = g.usize_in(1, 3);
                for _ in 0..nch {
                    let n = g.usize_in(0, 9);
                    ops.push(Op::Long { stmt: s, param: p as u16, data: g.bytes(n) });
                }
                if !matches!(params[p].value, PVal::Null) {
                    params[p].value = PVal::LongData;
                }
            }
            // a shim may look at only some of the parameters (or none): what is bound must persist
            let take = if g.chance(1, 5) { Some(g.usize_in(0, params.len())) } else { None };
            let reply_err = if g.chance(1, 6) { Some(*g.pick(&[1243u16, 1213, 1205, 1064, 1105, 1317, 1062, 1146])) } else { None };
            ops.push(Op::Exec { stmt: s, params, rebind, take, reply_err });
            if g.chance(1, 8) {
                ops.push(Op::Ping);
            }
        }
        let bound: Vec<usize> = (0..ns).filter(|&s| types[s].is_some()).collect();
        let tail_unbound = if !bound.is_empty() && g.chance(1, 8) {
            let s = *g.pick(&bound);
            Some((s, params_for(g, types[s].as_ref().unwrap())))
        } else {
            None
        };
        let tail_mode = if tail_unbound.is_some() { g.weighted(&[2, 2, 1, 1]) as u8 } else { 0 };
        Case { stmts, ops, tail_unbound, tail_mode }
    }
    fn exec(&self, case: &Case) -> Exec {
        let mut ex = Exec::default();
        // classification
        let mut last_rebound: Option<usize> = None;
        let mut reuse_after_other = false;
        let mut reuses = 0;
        for op in &case.ops {
            if let Op::Exec { stmt, rebind, .. } = op {
                if *rebind {
                    last_rebound = Some(*stmt);
                } else {
                    reuses += 1;
                    if last_rebound.is_some() && last_rebound != Some(*stmt) {
                        reuse_after_other = true;
                    }
                }
            }
        }
        ex.nontrivial = reuse_after_other;
        if reuses > 0 {
            ex.class("has-reuse");
        }
        if reuse_after_other {
            ex.class("reuse-after-rebind-of-other-statement");
        }
        if case.ops.iter().any(|o| matches!(o, Op::Long { .. })) {
            ex.class("history-with-streamed-parameters");
        }
        if case.ops.iter().any(|o| matches!(o, Op::Reprepare { .. })) {
            ex.class("open-id-prepared-anew-mid-history");
        }
        if case.tail_unbound.is_some() {
            ex.class(if case.tail_mode == 0 { "tail:new-statement-under-open-id-executed-without-types" } else if case.tail_mode == 1 { "tail:closed-id-prepared-anew-executed-without-types" } else { "tail:after-close-another-id-prepared-executed-without-types" });
            ex.nontrivial = true;
        }
        judge_history("c16", case, &mut ex, false);
        ex
    }
}
