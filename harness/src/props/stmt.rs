//! Shared by C08/C16/C17/C10: generation of bound parameters and the reference model of what
//! the shim must see for each.

use crate::gen::G;
use crate::gens::*;
use crate::shim::*;
use crate::wire::*;

/// every type code `COM_STMT_EXECUTE` parameters may be bound with (those the protocol defines a
/// binary encoding for)
pub const PARAM_TYPES: [u8; 27] = [
    T_TINY, T_SHORT, T_YEAR, T_LONG, T_INT24, T_LONGLONG, T_FLOAT, T_DOUBLE, T_DATE, T_DATETIME, T_TIMESTAMP, T_TIME, T_NULL, T_STRING,
    T_VAR_STRING, T_BLOB, T_TINY_BLOB, T_MEDIUM_BLOB, T_LONG_BLOB, T_SET, T_ENUM, T_DECIMAL, T_VARCHAR, T_BIT, T_NEWDECIMAL, T_GEOMETRY,
    T_JSON,
];

pub fn gen_param_type(g: &mut G<'_>) -> (u8, bool) {
    let t = match g.weighted(&[4, 3, 5]) {
        0 => *g.pick(&[T_LONGLONG, T_LONG, T_TINY, T_SHORT]),
        1 => *g.pick(&[T_VAR_STRING, T_BLOB, T_STRING]),
        _ => *g.pick(&PARAM_TYPES),
    };
    (t, g.coin())
}

/// a value for a parameter of the given bound type (never NULL-by-bitmap; caller decides that)
pub fn gen_param_value(g: &mut G<'_>, t: u8) -> PVal {
    match t {
        T_TINY | T_SHORT | T_YEAR | T_LONG | T_INT24 | T_LONGLONG => {
            let w = int_width(t).unwrap();
            let bits = match g.weighted(&[3, 2, 3]) {
                0 => *g.pick(&[0u64, 1, u64::MAX, 0x7f, 0x80, 0xff, 0x7fff, 0x8000, 0xffff, 0x7fff_ffff, 0x8000_0000, 0xffff_ffff, i64::MAX as u64, 1 << 63, 0x0102_0304_0506_0708]),
                1 => g.below(300),
                _ => g.u64_any(),
            };
            let mask = if w == 8 { u64::MAX } else { (1u64 << (8 * w)) - 1 };
            PVal::Int(bits & mask)
        }
        T_FLOAT => PVal::F32(if g.chance(1, 10) { *g.pick(&[0x7f80_0000u32, 0xff80_0000]) } else { gen_f32_bits(g) }),
        T_DOUBLE => PVal::F64(if g.chance(1, 10) { *g.pick(&[0x7ff0_0000_0000_0000u64, 0xfff0_0000_0000_0000]) } else { gen_f64_bits(g) }),
        T_DATE | T_DATETIME | T_TIMESTAMP if g.chance(1, 12) => {
            // the zero date and dates with a zero month or day, written out in full (MySQL knows
            // them; they are no calendar dates, so only the raw value is compared)
            let (y, m, _) = gen_date(g);
            let (h, mi, s) = gen_hms(g);
            let (y, m, d) = match g.below(3) {
                0 => (0, 0, 0),
                1 => (y, 0, 0),
                _ => (y, m, 0),
            };
            let t_zero = g.coin();
            let forms: &[u8] = if t == T_DATE { &[4] } else { &[4, 7, 11] };
            match *g.pick(forms) {
                4 => PVal::Date(y as u16, m as u8, d as u8, 0, 0, 0, 0, 4),
                7 => if t_zero { PVal::Date(y as u16, m as u8, d as u8, 0, 0, 0, 0, 7) } else { PVal::Date(y as u16, m as u8, d as u8, h as u8, mi as u8, s as u8, 0, 7) },
                _ => if t_zero { PVal::Date(y as u16, m as u8, d as u8, 0, 0, 0, 0, 11) } else { PVal::Date(y as u16, m as u8, d as u8, h as u8, mi as u8, s as u8, gen_micros(g), 11) },
            }
        }
        T_DATE => {
            let (y, m, d) = gen_date(g);
            let form = *g.pick(&[4u8, 4, 4, 0]);
            if form == 0 {
                PVal::Date(0, 0, 0, 0, 0, 0, 0, 0)
            } else {
                PVal::Date(y as u16, m as u8, d as u8, 0, 0, 0, 0, 4)
            }
        }
        T_DATETIME | T_TIMESTAMP => {
            let (y, m, d) = gen_date(g);
            let (h, mi, s) = gen_hms(g);
            let us = gen_micros(g);
            match *g.pick(&[0u8, 4, 7, 7, 11, 11]) {
                0 => PVal::Date(0, 0, 0, 0, 0, 0, 0, 0),
                4 => PVal::Date(y as u16, m as u8, d as u8, 0, 0, 0, 0, 4),
                7 => PVal::Date(y as u16, m as u8, d as u8, h as u8, mi as u8, s as u8, 0, 7),
                _ => PVal::Date(y as u16, m as u8, d as u8, h as u8, mi as u8, s as u8, us, 11),
            }
        }
        T_TIME => {
            let (h, m, s) = gen_hms(g);
            let days = match g.weighted(&[3, 2, 1]) {
                0 => 0,
                1 => g.below(35) as u32,
                _ => g.raw() % 100_000,
            };
            let neg = g.chance(1, 8);
            match *g.pick(&[0u8, 8, 8, 12, 12]) {
                0 => PVal::Time(false, 0, 0, 0, 0, 0, 0),
                8 => PVal::Time(neg, days, h as u8, m as u8, s as u8, 0, 8),
                _ => PVal::Time(neg, days, h as u8, m as u8, s as u8, gen_micros(g), 12),
            }
        }
        T_NULL => PVal::TypeNull,
        _ => {
            let huge = g.chance(1, 200);
            let b = gen_bytes(g, huge);
            // one byte string in ten carries a longer length prefix than its length needs
            if g.chance(1, 10) {
                let first = *g.pick(&[0xfcu8, 0xfd, 0xfe]);
                let fits = match first {
                    0xfc => b.len() < 1 << 16,
                    0xfd => b.len() < 1 << 24,
                    _ => true,
                };
                if fits {
                    return PVal::BytesWide(b, first);
                }
            }
            PVal::Bytes(b)
        }
    }
}

pub fn gen_param_of(g: &mut G<'_>, t: u8, unsigned: bool, allow_null: bool) -> Param {
    let value = if allow_null && g.chance(1, 6) { PVal::Null } else { gen_param_value(g, t) };
    Param { coltype: t, unsigned, value }
}

pub fn gen_param(g: &mut G<'_>) -> Param {
    let (t, u) = gen_param_type(g);
    gen_param_of(g, t, u, true)
}

pub fn gen_nparams(g: &mut G<'_>) -> usize {
    match g.weighted(&[1, 5, 3, 2, 1]) {
        0 => 0,
        1 => g.usize_in(1, 4),
        2 => *g.pick(&[7usize, 8, 9, 15, 16, 17]),
        3 => g.usize_in(1, 40),
        _ => *g.pick(&[63usize, 64, 65, 255, 256, 257, 600]),
    }
}

fn sign_extend(bits: u64, w: usize) -> i64 {
    match w {
        1 => bits as u8 as i8 as i64,
        2 => bits as u16 as i16 as i64,
        4 => bits as u32 as i32 as i64,
        _ => bits as i64,
    }
}

/// raw bytes of a temporal parameter after its length byte
fn temporal_bytes(p: &Param) -> Vec<u8> {
    let mut v = Vec::new();
    put_param_value(&mut v, p);
    v[1..].to_vec()
}

/// What the shim must be shown for a parameter the client bound as `p`:
/// (type code, exact ValueInner, expected conversion or None when the Rust target type cannot
/// represent the value and no expectation applies)
pub fn expected_seen(p: &Param, long_data: Option<&[u8]>) -> (u8, Inner, Option<Conv>, Option<String>) {
    if let Some(ld) = long_data {
        if !matches!(p.value, PVal::Null) {
            let s = std::str::from_utf8(ld).ok().map(|s| s.to_string());
            return (p.coltype, Inner::Bytes(ld.to_vec()), Some(Conv::Bytes(ld.to_vec())), s);
        }
        // flagged NULL *and* streamed: not asserted (MySQL lets the long data win, this library the NULL bit)
        return (UNASSERTED, Inner::Null, None, None);
    }
    match &p.value {
        PVal::Null => (p.coltype, Inner::Null, Some(Conv::NotTried), None),
        PVal::TypeNull => (p.coltype, Inner::Null, Some(Conv::NotTried), None),
        PVal::LongData => (p.coltype, Inner::Bytes(vec![]), Some(Conv::Bytes(vec![])), Some(String::new())),
        PVal::Int(bits) => {
            let w = int_width(p.coltype).unwrap();
            if p.unsigned {
                let conv = match w {
                    1 => Conv::U8(*bits as u8),
                    2 => Conv::U16(*bits as u16),
                    4 => Conv::U32(*bits as u32),
                    _ => Conv::U64(*bits),
                };
                (p.coltype, Inner::UInt(*bits), Some(conv), None)
            } else {
                let v = sign_extend(*bits, w);
                let conv = match w {
                    1 => Conv::I8(v as i8),
                    2 => Conv::I16(v as i16),
                    4 => Conv::I32(v as i32),
                    _ => Conv::I64(v),
                };
                (p.coltype, Inner::Int(v), Some(conv), None)
            }
        }
        PVal::F32(b) => {
            let f = f32::from_bits(*b);
            (p.coltype, Inner::Double((f as f64).to_bits()), if f.is_nan() { None } else { Some(Conv::F32(*b)) }, None)
        }
        PVal::F64(b) => (p.coltype, Inner::Double(*b), if f64::from_bits(*b).is_nan() { None } else { Some(Conv::F64(*b)) }, None),
        PVal::Bytes(b) | PVal::BytesWide(b, _) => (p.coltype, Inner::Bytes(b.clone()), Some(Conv::Bytes(b.clone())), std::str::from_utf8(b).ok().map(|s| s.to_string())),
        PVal::Date(y, m, d, h, mi, s, us, form) => {
            let raw = temporal_bytes(p);
            if p.coltype == T_DATE {
                let conv = if *form == 4 && crate::vals::naive_date(*y as i32, *m as u32, *d as u32).is_some() { Some(Conv::Date(*y as i32, *m as u32, *d as u32)) } else { None };
                (p.coltype, Inner::Date(raw), conv, None)
            } else {
                let conv = if *form != 0 && crate::vals::naive_date(*y as i32, *m as u32, *d as u32).is_some() {
                    Some(Conv::DateTime(*y as i32, *m as u32, *d as u32, *h as u32, *mi as u32, *s as u32, *us))
                } else {
                    None
                };
                (p.coltype, Inner::Datetime(raw), conv, None)
            }
        }
        PVal::Time(neg, days, h, m, s, us, form) => {
            let raw = temporal_bytes(p);
            let conv = if *neg && *form != 0 {
                None
            } else if *form == 0 {
                Some(Conv::Dur(0, 0))
            } else {
                Some(Conv::Dur(*days as u64 * 86_400 + *h as u64 * 3600 + *m as u64 * 60 + *s as u64, *us))
            };
            (p.coltype, Inner::Time(raw), conv, None)
        }
    }
}

/// compare what the shim saw with the model; returns the first discrepancy
/// marker type code for "this parameter is not asserted" (a client that flags a parameter NULL and
/// also streams long data for it: servers disagree on which wins)
pub const UNASSERTED: u8 = 0xee;

pub fn compare_seen(seen: &[SeenParam], want: &[(u8, Inner, Option<Conv>, Option<String>)], check_conv: bool) -> Result<(), String> {
    if seen.len() != want.len() {
        return Err(format!("shim was shown {} parameters, the statement declares {}", seen.len(), want.len()));
    }
    for (i, (s, (t, inner, conv, cstr))) in seen.iter().zip(want).enumerate() {
        if *t == UNASSERTED {
            continue;
        }
        if s.coltype != *t {
            return Err(format!("parameter {}: shim sees type code {}, client bound {}", i, s.coltype, t));
        }
        if &s.inner != inner {
            return Err(format!("parameter {}: shim sees {}, client sent {}", i, brief_inner(&s.inner), brief_inner(inner)));
        }
        if check_conv {
            if let Some(c) = conv {
                if &s.conv != c {
                    return Err(format!("parameter {} (type {}): conversion to the Rust type yields {:?}, client encoded {:?}", i, t, s.conv, c));
                }
            }
            if let (Some(cs), Inner::Bytes(_)) = (cstr, inner) {
                if s.conv_str.as_ref() != Some(cs) {
                    return Err(format!("parameter {}: conversion to &str differs", i));
                }
            }
        }
    }
    Ok(())
}

pub fn brief_inner(i: &Inner) -> String {
    match i {
        Inner::Bytes(b) => format!("Bytes({} bytes: {})", b.len(), hex(&b[..b.len().min(16)])),
        Inner::Double(b) => format!("Double({:e} / bits {:#x})", f64::from_bits(*b), b),
        other => format!("{:?}", other),
    }
}
