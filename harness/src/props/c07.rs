//! C07 — binary-protocol rows arrive unchanged, with an exact NULL bitmap.

use crate::conv::*;
use crate::engine::*;
use crate::gen::G;
use crate::gens::*;
use crate::model::*;
use crate::shim::*;
use crate::vals::*;
use crate::wire::*;
use serde::{Deserialize, Serialize};

pub struct C07;

#[derive(Clone, Debug, Serialize, Deserialize)]
pub enum Case {
    /// a whole binary resultset through the wire
    Rows {
        cols: Vec<ColSpec>,
        rows: Vec<RowProg>,
        /// the shim lets the RowWriter go out of scope instead of calling finish()
        #[serde(default)]
        drop_writer: bool,
    },
    /// one value offered to one column through the public encoder (`to_mysql_bin`)
    Single { val: Val, col: ColSpec },
}

fn gen_ncols_bin(g: &mut G<'_>) -> usize {
    match g.weighted(&[3, 4, 3, 2, 1]) {
        0 => g.usize_in(1, 5),
        1 => *g.pick(&[1usize, 6, 7, 8, 14, 15, 16, 22, 23, 24]),
        2 => g.usize_in(1, 40),
        3 => *g.pick(&[62usize, 63, 64, 65, 66, 126, 127, 128]),
        _ => *g.pick(&[250usize, 254, 255, 256, 300, 600]),
    }
}

/// any value at all, for the single-write universal rule
fn gen_any_val(g: &mut G<'_>) -> Val {
    let base = gen_any_base(g, false);
    Val { base, wrap: gen_wrap(g, false) }
}

pub fn single_write(val: &Val, col: &ColSpec) -> (Result<Result<Vec<u8>, String>, PanicRec>, bool) {
    let column = col.to_column();
    let mut is_null = NullSink(false);
    let _ = dispatch(val, &mut is_null);
    let r = catch(|| {
        let mut out = Vec::new();
        dispatch(val, &mut BinSink { out: &mut out, col: &column }).map(|_| out).map_err(|e| e.to_string())
    });
    (r, is_null.0)
}

/// decide one single write against the acceptance model; returns a failure text
pub fn judge_single(val: &Val, col: &ColSpec, ex: &mut Exec) -> Option<(String, String)> {
    let (r, is_null) = single_write(val, col);
    if val.denotes_null() {
        // RowWriter consults is_null() and never calls the encoder for NULLs
        if !is_null {
            return Some(("c07-null-not-reported".into(), format!("{:?} denotes NULL but is_null() is false: the NULL bitmap would not be set", val)));
        }
        return None;
    }
    if is_null {
        return Some(("c07-value-reported-null".into(), format!("{:?} is a value but is_null() is true", val)));
    }
    let expect = bin_expect(&val.base, col.coltype, col.unsigned());
    let decoded = |bytes: &[u8]| -> Result<Sem, String> {
        let mut c = Cur::new(bytes);
        let v = parse_bin_value(&mut c, col.coltype, col.unsigned())?;
        if !c.done() {
            return Err(format!("{} surplus bytes after the value", c.left()));
        }
        Ok(sem_of_bin(&v, col.coltype))
    };
    match (&expect, r) {
        (BinExpect::Accept(sem), Ok(Ok(bytes))) | (BinExpect::AcceptOrRefuse(sem), Ok(Ok(bytes))) => match decoded(&bytes) {
            Ok(got) if &got == sem => None,
            Ok(got) => Some(("c07-value-altered".into(), format!("{:?} written to column type {} (unsigned={}) decodes as {:?}", val, col.coltype, col.unsigned(), got))),
            Err(e) => Some(("c07-undecodable".into(), format!("{:?} written to column type {}: encoder output {} does not decode: {}", val, col.coltype, hex(&bytes), e))),
        },
        (BinExpect::Accept(_), Ok(Err(e))) => Some(("c07-wrongly-refused".into(), format!("{:?} must be accepted by column type {} (unsigned={}) but was refused: {}", val, col.coltype, col.unsigned(), e))),
        (BinExpect::Accept(_), Err(p)) => Some((format!("c07-wrongly-refused-panic|{}", panic_signature(&p)), format!("{:?} must be accepted by column type {} (unsigned={}) but the encoder panicked: {}", val, col.coltype, col.unsigned(), p.msg))),
        (BinExpect::Refuse, Ok(Ok(bytes))) => Some((
            "c07-foreign-accepted".into(),
            format!("{:?} cannot be carried by column type {} (unsigned={}) but was encoded as {} instead of being refused", val, col.coltype, col.unsigned(), hex(&bytes)),
        )),
        (BinExpect::Refuse, Ok(Err(_))) | (BinExpect::AcceptOrRefuse(_), Ok(Err(_))) => None,
        (BinExpect::Refuse, Err(_)) | (BinExpect::AcceptOrRefuse(_), Err(_)) => {
            ex.note("refused_by_panic (assert! in the encoder; nothing is sent)");
            None
        }
    }
}

impl Prop for C07 {
    type Case = Case;
    fn id(&self) -> &'static str {
        "C07"
    }
    fn canary(&self) -> bool {
        true
    }
    fn rule(&self) -> String {
        "cases = (a) binary resultsets answered to COM_STMT_EXECUTE with 1-600 columns (sizes biased to 1, 6, 7, 8, 14-16, 22-24, 62-66, 126-128, 250-600 where the +2 bitmap offset crosses byte boundaries) of every type the encoders accept, both signednesses, random NOT NULL flags, rows with arbitrary NULL patterns (None, &None, Value::NULL, &Value::NULL) and type-matching values (natural pairs and documented widenings), each cell by value / by reference / in Option / as mysql_common::Value, via write_col, write_row(values), write_row(&values); one row in six written with write_col first offers some columns (biased to the first, the last and the surplus column after the last) a value they cannot carry - NULL for NOT NULL, bytes/float/date/duration for a foreign column type - which must be refused with an error and leave no trace in the row that the shim then completes with its fallback value; (b) single writes of any value to any column through the public encoder, judged by the acceptance model (natural pair => must be accepted and decode exactly; foreign type => must be refused; otherwise exact-or-refused). Oracle: reference binary-row decoder driven only by the advertised column definitions. Non-trivial = >= 7 columns with >= 1 NULL, or a temporal/bytes cell, or a refused single write, or a row with refused offers.".into()
    }
    fn assumptions(&self) -> Vec<String> {
        vec![
            "assert!-panics of the encoder on same-family writes into the opposite signedness (u8 -> signed TINY ...) count as refusals (nothing is sent); they are counted as refused_by_panic".into(),
            "opposite-signedness writes are only exercised through the public encoder, not inside a RowWriter (a panic while a row is open aborts in RowWriter::drop, which is documented misuse territory)".into(),
        ]
    }
    fn cases(&self, tier: Tier) -> u64 {
        tier.pick(300000, 3000000)
    }
    fn fuzz_plan(&self, tier: Tier) -> Vec<(&'static str, u64)> {
        if tier == Tier::Thorough {
            vec![("prop", 100000_u64)]
        } else {
            vec![]
        }
    }
    fn choice_len(&self) -> usize {
        8000
    }
    fn gen(&self, g: &mut G<'_>, _tier: Tier) -> Case {
        g.allow_offers = true;
        if g.chance(2, 5) {
            // single write: half natural, half arbitrary pairs
            let fv = g.coin();
            let col = gen_col(g, fv);
            let val = if matches!(col.coltype, T_DATE | T_DATETIME | T_TIMESTAMP) && g.chance(1, 4) {
                // dates beyond year 9999 / before year 0: exact, refused, never another date
                let (y, m, d) = gen_date_far(g);
                let base = if col.coltype == T_DATE { Base::Date(y, m, d) } else { Base::DateTime(y, m, d, 23, 59, 58, if g.coin() { 0 } else { 999_999 }) };
                Val { base, wrap: gen_wrap(g, false) }
            } else if g.coin() {
                match gen_bin_base(g, col.coltype, col.unsigned()) {
                    Some(b) => Val { base: b, wrap: gen_wrap(g, true) },
                    None => gen_any_val(g),
                }
            } else {
                let mut v = gen_any_val(g);
                if g.chance(1, 8) {
                    v.wrap = *g.pick(&[Wrap::None, Wrap::RefNone]);
                }
                v
            };
            return Case::Single { val, col };
        }
        let n = gen_ncols_bin(g);
        let mut cols = gen_cols(g, n, true);
        for c in cols.iter_mut() {
            // plain names: metadata is C09's business
            c.table = "t".into();
            c.name = "c".into();
        }
        let nrows = if n > 100 { g.usize_in(1, 2) } else { g.usize_in(1, 6) };
        let mut rows: Vec<RowProg> = (0..nrows).map(|i| gen_row(g, &cols, true, i + 1 == nrows)).collect();
        settle_short_rows(&mut rows, cols.len());
        repeat_rows(g, &mut rows);
        Case::Rows { cols, rows, drop_writer: g.chance(1, 5) }
    }
    fn exec(&self, case: &Case) -> Exec {
        let mut ex = Exec::default();
        match case {
            Case::Single { val, col } => {
                ex.class("single-write");
                let expect = if val.denotes_null() { None } else { Some(bin_expect(&val.base, col.coltype, col.unsigned())) };
                match &expect {
                    None => ex.class("single:null"),
                    Some(BinExpect::Accept(_)) => ex.class("single:must-accept"),
                    Some(BinExpect::Refuse) => {
                        ex.class("single:must-refuse");
                        ex.nontrivial = true;
                    }
                    Some(BinExpect::AcceptOrRefuse(_)) => ex.class("single:exact-or-refused"),
                }
                if matches!(sem_of_val(val), Sem::Bytes(_) | Sem::Date(..) | Sem::DateTime(..) | Sem::Time(_)) {
                    ex.nontrivial = true;
                }
                if let Some((k, m)) = judge_single(val, col, &mut ex) {
                    ex.fail(k, m);
                }
            }
            Case::Rows { cols, rows, drop_writer } => {
                ex.class("resultset");
                if *drop_writer {
                    ex.class("row-writer-dropped-instead-of-finish");
                }
                let nulls = rows.iter().flat_map(|r| r.cells.iter()).filter(|c| c.denotes_null()).count();
                if cols.len() >= 7 && nulls > 0 {
                    ex.nontrivial = true;
                    ex.class("bitmap>1byte-with-null");
                }
                if rows.iter().flat_map(|r| r.cells.iter()).any(|c| matches!(sem_of_val(c), Sem::Bytes(_) | Sem::Date(..) | Sem::DateTime(..) | Sem::Time(_))) {
                    ex.nontrivial = true;
                    ex.class("temporal-or-bytes-cell");
                }
                if cols.len() >= 250 {
                    ex.class("columns>=250");
                }
                ex.count("cells_checked", rows.iter().map(|r| r.cells.len() as u64).sum());
                let conv = Conversation::new(
                    vec![Cmd::Prepare { text: Blob::text("p") }, Cmd::Execute { id: 3, params: vec![], send_types: false, flags: 0, iterations: 1 }, Cmd::Ping],
                    vec![
                        Action::Prepare(PrepProg::Reply { id: 3, params: vec![], cols: vec![] }),
                        Action::Result(Program { steps: vec![Step::Set { cols: cols.clone(), rows: rows.clone(), end: if *drop_writer { SetEnd::DropRowWriter } else { SetEnd::Finish } }] }),
                    ],
                );
                if rows.iter().any(|r| r.form == RowForm::ShortEndRow) {
                    ex.nontrivial = true;
                    ex.class("short-row-ended-with-end_row");
                }
                let offers: usize = rows.iter().map(|r| r.offers.len()).sum();
                if offers > 0 {
                    ex.nontrivial = true;
                    ex.class("row-with-refused-offers");
                    if rows.iter().any(|r| r.offers.iter().any(|(i, _)| *i == 0)) {
                        ex.class("refused-offer-at-first-column");
                    }
                }
                // first, on this very thread, some of the values meet a writer that breaks after 0-2
                // bytes: no encoder state may survive that
                for (k, (c, col)) in rows.iter().flat_map(|r| r.cells.iter().zip(cols.iter())).filter(|(c, _)| !c.denotes_null()).take(6).enumerate() {
                    let column = col.to_column();
                    let _ = catch(|| dispatch(c, &mut FailingBinSink { left: k % 3, col: &column }));
                }
                let o = run_with(&conv, None, false);
                if let Some(a) = o.offers_accepted.first() {
                    ex.fail("c07-offer-accepted", format!("a value the column cannot carry was accepted instead of refused: {}", a.chars().take(300).collect::<String>()));
                    return ex;
                }
                ex.count("offers_refused", o.offers_refused as u64);
                if o.failed_after_refused_offer && !o.result.is_panic() {
                    // The library refused the offer and then also the calls that followed on the same
                    // RowWriter.  No property promises that a row can be continued after a refusal;
                    // what must hold is that nothing malformed went out: the bytes sent so far are a
                    // conformant response cut short.
                    ex.class("writer-unusable-after-a-refusal");
                    let kinds: Vec<ReplyKind> = conv.cmds.iter().map(|sc| sc.cmd.reply_kind()).collect();
                    let d = decode_output(&o.out, &kinds);
                    if let Some(p) = &d.problem {
                        if !d.truncated_only {
                            ex.fail("c07-malformed-after-refusal", format!("after a refused write_col the row was given up, but what was sent is malformed: {}", p));
                        }
                    }
                    if !o.result.is_err() {
                        ex.fail("c07-refusal-swallowed", format!("the shim propagated a writer error but run_on returned {}", o.result.brief()));
                    }
                    return ex;
                }
                if let RunResult::Panic(p) = &o.result {
                    ex.fail(format!("c07-panic|{}", panic_signature(p)), format!("run_on panicked: {}", o.result.brief()));
                    return ex;
                }
                if !o.result.is_ok() {
                    ex.fail("c07-run-result", format!("run_on returned {} (failing writer call: {:?})", o.result.brief(), o.calls.iter().find(|k| !k.ok).map(|k| (k.name, k.row))));
                    return ex;
                }
                let kinds: Vec<ReplyKind> = conv.cmds.iter().map(|sc| sc.cmd.reply_kind()).collect();
                let d = decode_output(&o.out, &kinds);
                if let Some(p) = &d.problem {
                    ex.fail("c07-nonconformant", format!("client decoder rejects the output: {}", p));
                    return ex;
                }
                let exps = expectations(&conv);
                if let Err(m) = check_reply(&exps[1], &d.replies[1], true) {
                    ex.fail("c07-row-differs", m.chars().take(600).collect::<String>());
                    return ex;
                }
                // second opinion: mysql_common's own column and binary-row parsers on the raw packets
                if cols.iter().all(|c| mysql_common::constants::ColumnType::try_from(c.coltype).is_ok()) {
                    if let Err(m) = second_opinion(&d, &d.replies[1], cols, rows) {
                        ex.fail("c07-second-opinion", m);
                    }
                } else {
                    ex.class("second-opinion-skipped(type unknown to mysql_common)");
                }
            }
        }
        ex
    }
}

/// mysql_common (the `mysql` crate's protocol layer) decodes the same packets: column definitions
/// with `Column`, rows with `RowDeserializer<ServerSide, Binary>`; its values must denote what the
/// shim wrote.
fn second_opinion(d: &Decoded, r: &Response, cols: &[ColSpec], rows: &[RowProg]) -> Result<(), String> {
    use mysql_common::io::ParseBuf;
    use mysql_common::packets::Column as MyColumn;
    use mysql_common::proto::{Binary, MyDeserialize};
    use mysql_common::row::RowDeserializer;
    use mysql_common::value::{ServerSide, Value as MyValue};
    let msgs = &d.msgs[r.first_msg..r.first_msg + r.n_msgs];
    let n = cols.len();
    // (rows the shim gave up before writing anything are not part of the response)
    let rows: Vec<&RowProg> = rows.iter().filter(|r| !r.cells.is_empty() && r.form != RowForm::ShortEndRow).collect();
    if msgs.len() < 1 + n + 1 + rows.len() + 1 {
        return Err("response shorter than header + rows".into());
    }
    let mut mycols = Vec::with_capacity(n);
    for (i, m) in msgs[1..1 + n].iter().enumerate() {
        let mut buf = ParseBuf(&m.payload[..]);
        mycols.push(MyColumn::deserialize((), &mut buf).map_err(|e| format!("mysql_common rejects column definition {}: {}", i, e))?);
    }
    let mycols: std::sync::Arc<[MyColumn]> = mycols.into();
    for (ri, (m, wrow)) in msgs[1 + n + 1..].iter().zip(rows.iter()).enumerate() {
        let mut buf = ParseBuf(&m.payload[..]);
        let row = RowDeserializer::<ServerSide, Binary>::deserialize(mycols.clone(), &mut buf).map_err(|e| format!("mysql_common rejects binary row {}: {}", ri, e))?.into_inner();
        if !buf.is_empty() {
            return Err(format!("mysql_common leaves {} bytes of binary row {} unread", buf.len(), ri));
        }
        let vals = row.unwrap();
        for (ci, (v, w)) in vals.iter().zip(&wrow.cells).enumerate() {
            let want = sem_of_val(w);
            let got = match v {
                MyValue::NULL => Sem::Null,
                MyValue::Bytes(b) => Sem::Bytes(b.clone()),
                MyValue::Int(i) => Sem::Int(*i as i128),
                MyValue::UInt(u) => Sem::Int(*u as i128),
                MyValue::Float(f) => Sem::Float((*f as f64).to_bits()),
                MyValue::Double(f) => Sem::Float(f.to_bits()),
                MyValue::Date(y, mo, dd, h, mi, s, us) => {
                    if cols[ci].coltype == T_DATE {
                        Sem::Date(*y as i32, *mo as u32, *dd as u32)
                    } else {
                        Sem::DateTime(*y as i32, *mo as u32, *dd as u32, *h as u32, *mi as u32, *s as u32, *us)
                    }
                }
                MyValue::Time(neg, dd, h, mi, s, us) => {
                    let total = ((*dd as u128 * 24 + *h as u128) * 60 + *mi as u128) * 60 * 1_000_000 + *s as u128 * 1_000_000 + *us as u128;
                    if *neg && total != 0 {
                        Sem::NegTime(total)
                    } else {
                        Sem::Time(total)
                    }
                }
            };
            if got != want {
                return Err(format!("row {} col {} (type {}): mysql_common decodes {:?}, shim wrote {:?}", ri, ci, cols[ci].coltype, got, want));
            }
        }
    }
    Ok(())
}
