//! C04 — outbound bytes are well-framed, including messages of 16 MiB and more.

use crate::conv::*;
use crate::engine::*;
use crate::gen::G;

use crate::model::*;
use crate::shim::*;
use crate::transport::Schedule;
use crate::vals::*;
use crate::wire::*;
use serde::{Deserialize, Serialize};

pub struct C04;

#[derive(Clone, Debug, Serialize, Deserialize, PartialEq)]
pub enum Assembly {
    /// text row of `cells` cells whose encoded sizes sum to the target
    TextRow { cells: usize },
    BinRow { cells: usize },
    /// ERR packet with a huge message
    ErrMsg,
    /// column definition with a huge column name
    ColName,
    /// a text row of 3 columns of which only the first `written` (1 or 2) cells are written with
    /// write_col (their encoded sizes sum to the target) before the shim gives up with
    /// finish_error: whatever the library does with the abandoned row, the client must not be
    /// handed a message the server never meant to send
    AbandonedRow { written: usize },
    /// a row of 17-70 MB laid out against the packet boundaries (see gens::gen_big_layout_row);
    /// `target` is unused
    Layout { bin: bool, cols: Vec<ColSpec>, row: RowProg },
}

#[derive(Clone, Debug, Serialize, Deserialize)]
pub struct Case {
    /// size of the logical message (packet payload before splitting)
    pub target: usize,
    pub assembly: Assembly,
    pub seed: u32,
    /// where the cell boundaries fall: per-mille split points, sorted
    pub splits: Vec<u32>,
    pub pre_rows: usize,
    pub post_rows: usize,
    pub write_accept: Vec<usize>,
    pub bin_as_str: bool,
    /// a one-off transport error at the write()/flush() call number `at` (per mille of the calls of
    /// the fault-free run) with the given io::ErrorKind code (see transport::injected), after which
    /// the transport works again: whatever the server does then, the bytes it has handed to the
    /// transport must remain a prefix of the fault-free output
    #[serde(default)]
    pub fault: Option<(u32, u8)>,
    /// what the client announced in its handshake response: (max_packet_size, character set) -
    /// the server's framing must not depend on it
    #[serde(default)]
    pub announced: Option<(u32, u8)>,
}

const U24: usize = MAX_PAYLOAD;

fn lenenc_overhead(n: usize) -> usize {
    if n < 251 {
        1
    } else if n < 65_536 {
        3
    } else if n < (1 << 24) {
        4
    } else {
        9
    }
}

/// byte-string length whose lenenc encoding occupies exactly `total` bytes (None if impossible)
fn payload_for_encoded(total: usize) -> Option<usize> {
    for oh in [1usize, 3, 4, 9] {
        if total >= oh {
            let n = total - oh;
            if lenenc_overhead(n) == oh {
                return Some(n);
            }
        }
    }
    None
}

impl Case {
    /// the conversation realising this case (not serialised: it contains the big literals)
    fn build(&self) -> Option<(Conversation, usize)> {
        let small_cols = |n: usize| -> Vec<ColSpec> { (0..n).map(|i| ColSpec::simple(&format!("c{}", i), T_BLOB, 0)).collect() };
        let small_row = |n: usize, k: usize| RowProg { cells: (0..n).map(|i| Val::plain(Base::Slice(vec![b'a' + ((i + k) % 26) as u8; 3]))).collect(), form: RowForm::WriteRow, offers: vec![] };
        let (cmd, prog, big_len): (Cmd, Program, usize) = match &self.assembly {
            Assembly::TextRow { cells } | Assembly::BinRow { cells } => {
                let bin = matches!(self.assembly, Assembly::BinRow { .. });
                let n = *cells;
                // binary rows: header byte + bitmap precede the cells
                let fixed = if bin { 1 + (n + 7 + 2) / 8 } else { 0 };
                if self.target < fixed + n {
                    return None;
                }
                let budget = self.target - fixed;
                // divide the budget at the split points
                let mut cuts: Vec<usize> = self.splits.iter().take(n.saturating_sub(1)).map(|&pm| (budget as u128 * pm as u128 / 1000) as usize).collect();
                cuts.sort();
                let mut sizes = Vec::new();
                let mut prev = 0;
                for c in cuts {
                    sizes.push(c - prev);
                    prev = c;
                }
                sizes.push(budget - prev);
                while sizes.len() < n {
                    sizes.push(0);
                }
                // each cell's encoded size must be representable
                let mut cells_v = Vec::new();
                let mut carry = 0usize;
                for (i, enc) in sizes.iter().enumerate() {
                    let enc = enc + carry;
                    carry = 0;
                    match payload_for_encoded(enc) {
                        Some(len) if enc > 0 => cells_v.push(if self.bin_as_str && i % 2 == 0 {
                            Val::plain(Base::BigStr { seed: self.seed.wrapping_add(i as u32), len })
                        } else {
                            Val { base: Base::BigBytes { seed: self.seed.wrapping_add(i as u32), len }, wrap: if i % 2 == 1 { Wrap::Ref } else { Wrap::Plain } }
                        }),
                        _ => {
                            if i + 1 == sizes.len() {
                                return None;
                            }
                            // give this cell one byte (empty string) and push the rest on
                            if enc == 0 {
                                return None;
                            }
                            cells_v.push(Val::plain(Base::Slice(vec![])));
                            carry = enc - 1;
                        }
                    }
                }
                if carry != 0 {
                    return None;
                }
                let mut rows = Vec::new();
                for k in 0..self.pre_rows {
                    rows.push(small_row(n, k));
                }
                rows.push(RowProg {
                    cells: cells_v,
                    // written with write_row, with write_col + end_row, or with write_col only and left for
                    // finish to end (then it has to be the last row)
                    form: match self.seed % 3 {
                        0 => RowForm::WriteRow,
                        1 => RowForm::Cols,
                        _ => RowForm::ColsOpen,
                    },
                    offers: vec![],
                });
                let open = self.seed % 3 == 2;
                if !open {
                    for k in 0..self.post_rows {
                        rows.push(small_row(n, k + 7));
                    }
                }
                let end = if open && self.seed % 2 == 0 { SetEnd::DropRowWriter } else { SetEnd::Finish };
                let prog = Program { steps: vec![Step::Set { cols: small_cols(n), rows, end }] };
                let cmd = if bin { Cmd::Execute { id: 1, params: vec![], send_types: false, flags: 0, iterations: 1 } } else { Cmd::Query { text: Blob::text("big") } };
                (cmd, prog, self.target)
            }
            Assembly::Layout { bin, cols, row } => {
                let mut rows = Vec::new();
                let small = |k: usize| RowProg { cells: cols.iter().map(|_| Val { base: Base::U8(k as u8), wrap: Wrap::None }).collect(), form: RowForm::WriteRow, offers: vec![] };
                for k in 0..self.pre_rows {
                    rows.push(small(k));
                }
                rows.push(row.clone());
                for k in 0..self.post_rows {
                    rows.push(small(k));
                }
                let prog = Program { steps: vec![Step::Set { cols: cols.clone(), rows, end: SetEnd::Finish }] };
                let cmd = if *bin { Cmd::Execute { id: 1, params: vec![], send_types: false, flags: 0, iterations: 1 } } else { Cmd::Query { text: Blob::text("layout") } };
                (cmd, prog, 0)
            }
            Assembly::ErrMsg => {
                // ERR payload = 1 + 2 + 1 + 5 + msg
                if self.target < 9 {
                    return None;
                }
                let msg = big_bytes(self.seed, self.target - 9);
                let mut steps = Vec::new();
                if self.pre_rows > 0 {
                    steps.push(Step::CompleteOne { rows: 1, id: 1 });
                }
                steps.push(Step::Error { kind: 1064, msg });
                (Cmd::Query { text: Blob::text("bigerr") }, Program { steps }, self.target)
            }
            Assembly::AbandonedRow { written } => {
                let n = (*written).max(1).min(2);
                if self.target < n + 2 {
                    return None;
                }
                let first = if n == 2 { (self.target as u128 * (*self.splits.first().unwrap_or(&500)).max(1) as u128 / 1001) as usize } else { self.target };
                let sizes = if n == 2 { vec![first.max(1), self.target - first.max(1)] } else { vec![self.target] };
                let mut cells_v = Vec::new();
                for (i, enc) in sizes.iter().enumerate() {
                    let len = payload_for_encoded(*enc)?;
                    cells_v.push(Val::plain(Base::BigBytes { seed: self.seed.wrapping_add(i as u32), len }));
                }
                let mut rows = Vec::new();
                for k in 0..self.pre_rows {
                    rows.push(small_row(3, k));
                }
                rows.push(RowProg { cells: cells_v, form: RowForm::ColsOpen, offers: vec![] });
                let prog = Program { steps: vec![Step::Set { cols: small_cols(3), rows, end: SetEnd::FinishError { kind: 1105, msg: b"gave up in the middle of a row".to_vec() } }] };
                (Cmd::Query { text: Blob::text("abandon") }, prog, self.target)
            }
            Assembly::ColName => {
                // column definition payload: "def"(4) + schema(1) + table(1+1) + org_table(1) + name(lenenc) + org_name(1) + 0x0c(1) + 12 fixed
                let fixed = 4 + 1 + 2 + 1 + 1 + 1 + 12;
                if self.target <= fixed {
                    return None;
                }
                let name_len = payload_for_encoded(self.target - fixed)?;
                let mut cols = small_cols(2);
                cols[1].name = big_str(self.seed, name_len);
                cols[1].table = "t".into();
                let rows = (0..self.post_rows).map(|k| small_row(2, k)).collect();
                (Cmd::Query { text: Blob::text("bigcol") }, Program { steps: vec![Step::Set { cols, rows, end: SetEnd::Finish }] }, self.target)
            }
        };
        let mut cmds = vec![Cmd::Ping];
        let mut actions = vec![];
        if matches!(cmd, Cmd::Execute { .. }) {
            cmds.push(Cmd::Prepare { text: Blob::text("p") });
            actions.push(Action::Prepare(PrepProg::Reply { id: 1, params: vec![], cols: vec![] }));
        }
        cmds.push(cmd);
        actions.push(Action::Result(prog));
        cmds.push(Cmd::Ping);
        let mut conv = Conversation::new(cmds, actions);
        conv.sched = Schedule::all_at_once();
        conv.sched.write_accept = self.write_accept.clone();
        Some((conv, big_len))
    }
}

fn gen_case(g: &mut G<'_>, target: usize, assembly: Assembly) -> Case {
    let n = match &assembly {
        Assembly::TextRow { cells } | Assembly::BinRow { cells } => *cells,
        _ => 1,
    };
    let mut splits: Vec<u32> = (0..n.saturating_sub(1))
        .map(|_| match g.below(4) {
            // cell boundary before / at / after the packet limit (relative to a 1-fragment target these are near the end)
            0 => 999,
            1 => 1,
            2 => 500,
            _ => g.below(1001) as u32,
        })
        .collect();
    splits.sort();
    Case {
        target,
        assembly,
        seed: g.raw(),
        splits,
        // (sometimes so many small rows first that the big message's packets carry the sequence ids
        // around 255 -> 0)
        pre_rows: if g.chance(1, 8) { 244 + g.below(12) as usize } else { g.below(3) as usize },
        post_rows: g.below(3) as usize,
        write_accept: if g.chance(1, 3) { vec![*g.pick(&[1usize << 16, 4096, 1 << 20, 77_777])] } else { vec![] },
        bin_as_str: g.coin(),
        fault: None,
        announced: if g.coin() { Some(crate::gens::gen_client_announcements(g)) } else { None },
    }
}

impl Prop for C04 {
    type Case = Case;
    fn id(&self) -> &'static str {
        "C04"
    }
    fn canary(&self) -> bool {
        true
    }
    fn rule(&self) -> String {
        "cases = one logical server message of a chosen size, realised by an assembly (text row of 1-4 cells whose encoded sizes sum to the target with cell boundaries before/at/after the packet limit; binary row; ERR message; column definition with a huge name; a text row abandoned with finish_error after its first 1-2 cells were written), preceded/followed by ordinary rows (0-2, one case in eight 244-255 so that the message's packets carry the sequence ids around 255 -> 0; enumerated: exact multiples of 2^24-1 behind 246-254 rows) and PINGs, optionally with short transport writes, after a handshake response that announces a generated max_packet_size (0, 1 KiB ... 1 GiB; the server's framing must not depend on it) and character set; 1 case in 600 is instead a text or binary row of 17-70 MB laid out against the packet boundaries (cells of 1x-3x the packet size, several per row, small cells before / between / after). One case in four is run on a transport that fails once at a generated write()/flush() call (ConnectionReset, Other, BrokenPipe, TimedOut, WouldBlock or Interrupted; with short writes, so that the failure also falls inside packets) and works again afterwards: when the failure cut a packet short, the bytes handed to the transport before and after it must be a prefix of the fault-free output (a truncated packet can only be continued where it stopped); when it fell on a packet boundary they must be whole packets. Sizes: enumerated k*(2^24-1)+d for k in {1,2}, d in a window around 0, plus random sizes (small ones by the thousands). Oracle: independent framer over the raw output (consumed exactly; every fragment but the last of a long message is 0xFFFFFF bytes, the last shorter, possibly empty), reassembled messages decoded and compared with the values written. Non-trivial = message >= 2^24-1-8 bytes.".into()
    }
    fn assumptions(&self) -> Vec<String> {
        vec!["messages beyond ~4*(2^24-1) bytes are not explored".into()]
    }
    fn cases(&self, tier: Tier) -> u64 {
        tier.pick(30000, 300000)
    }
    fn choice_len(&self) -> usize {
        64
    }
    fn gen(&self, g: &mut G<'_>, tier: Tier) -> Case {
        // small and medium random sizes; a few large ones in the thorough tier
        let target = match g.weighted(&[6, 4, 3, if tier == Tier::Thorough { 1 } else { 0 }]) {
            0 => g.usize_in(10, 600),
            1 => g.usize_in(10, 70_000),
            2 => *g.pick(&[250usize, 251, 252, 253, 65_535, 65_536, 65_537, 65_538, 65_539, 65_540]) + g.usize_in(0, 40),
            _ => g.usize_in(U24 - 20, U24 + 20),
        };
        let assembly = match g.below(6) {
            5 => Assembly::AbandonedRow { written: g.usize_in(1, 2) },
            0 => Assembly::TextRow { cells: 1 },
            1 => Assembly::TextRow { cells: g.usize_in(2, 4) },
            2 => Assembly::BinRow { cells: g.usize_in(1, 4) },
            3 => Assembly::ErrMsg,
            _ => Assembly::ColName,
        };
        let mut c = if g.chance(1, 600) && !g.fuzzing {
            let bin = g.coin();
            let (cols, row) = crate::gens::gen_big_layout_row(g, bin);
            gen_case(g, 0, Assembly::Layout { bin, cols, row })
        } else {
            gen_case(g, target, assembly)
        };
        if !matches!(c.assembly, Assembly::AbandonedRow { .. }) && g.chance(1, 4) {
            // a transport that fails once in the middle (a send timeout, EAGAIN, a signal) and then
            // works again; short writes so that the failure falls inside packets too
            let big = matches!(c.assembly, Assembly::Layout { .. }) || c.target > 100_000;
            c.write_accept = if big { vec![*g.pick(&[1usize << 16, 1 << 20, 77_777, 5_000_000])] } else if g.chance(2, 3) { vec![*g.pick(&[1usize, 3, 7, 50, 1000])] } else { vec![] };
            c.fault = Some((g.below(1001) as u32, *g.pick(&[0u8, 2, 3, 4, 4, 5, 5, 6])));
        }
        c
    }
    fn fixed(&self, tier: Tier) -> Vec<Case> {
        let mut v = Vec::new();
        let ds: Vec<i64> = match tier {
            Tier::Quick => vec![-5, -4, -1, 0, 1, 4],
            Tier::Thorough => (-6..=6).collect(),
        };
        let ks: &[usize] = &[1, 2];
        let assemblies: Vec<Assembly> = match tier {
            Tier::Quick => vec![Assembly::TextRow { cells: 1 }, Assembly::BinRow { cells: 2 }, Assembly::AbandonedRow { written: 1 }],
            Tier::Thorough => vec![
                Assembly::TextRow { cells: 1 },
                Assembly::TextRow { cells: 3 },
                Assembly::BinRow { cells: 1 },
                Assembly::BinRow { cells: 4 },
                Assembly::ErrMsg,
                Assembly::ColName,
                Assembly::AbandonedRow { written: 1 },
                Assembly::AbandonedRow { written: 2 },
            ],
        };
        let mut i = 0u32;
        for &k in ks {
            for d in &ds {
                if tier == Tier::Quick && k == 2 && ![-1i64, 0, 1].contains(d) {
                    continue;
                }
                let target = ((k * U24) as i64 + d) as usize;
                for a in &assemblies {
                    i += 1;
                    let data = [i.wrapping_mul(0x9E37_79B9), i << 28, i << 20, 0x8000_0000u32.wrapping_mul(i), i << 30, i << 29, i << 27];
                    let mut g = G::new(&data);
                    let mut c = gen_case(&mut g, target, a.clone());
                    // rotate the row form (write_row / write_col+end_row / left open) per case
                    c.seed = c.seed - c.seed % 3 + i % 3;
                    v.push(c.clone());
                    if d.abs() <= 1 && matches!(a, Assembly::TextRow { .. } | Assembly::BinRow { .. }) {
                        // exact multiples and their neighbours: all three forms
                        for f in 0..3u32 {
                            if f != i % 3 {
                                let mut c2 = c.clone();
                                c2.seed = c.seed - c.seed % 3 + f;
                                v.push(c2);
                            }
                        }
                    }
                }
            }
        }
        // exact multiples of 2^24-1 whose packets carry the sequence ids 253, 254, 255, 0, 1: the
        // empty terminating packet is owed whatever the 8-bit counter did in between
        let ks2: &[usize] = match tier {
            Tier::Quick => &[1],
            Tier::Thorough => &[1, 2, 3],
        };
        for &k in ks2 {
            for pre in 246..=254usize {
                for a in [Assembly::TextRow { cells: 1 }, Assembly::BinRow { cells: 1 }] {
                    i += 1;
                    let data = [i.wrapping_mul(0x9E37_79B9), i << 28, i << 20, 0x8000_0000u32.wrapping_mul(i), i << 30, i << 29, i << 27, 0xffff_ffff];
                    let mut g = G::new(&data);
                    let mut c = gen_case(&mut g, k * U24, a);
                    c.pre_rows = pre;
                    c.post_rows = (pre % 2) as usize;
                    c.seed = c.seed - c.seed % 3 + (pre as u32) % 2;
                    v.push(c);
                }
            }
        }
        // a 16 MiB value: the anchor sentence "a row or value larger than 16 MiB arrives intact"
        let data = [1u32, 2, 3];
        let mut g = G::new(&data);
        v.push(gen_case(&mut g, (1 << 24) + 9 + 1, Assembly::TextRow { cells: 1 }));
        v.push(gen_case(&mut g, (1 << 24) + 1000, Assembly::BinRow { cells: 1 }));
        if tier == Tier::Thorough {
            // "for all logical message sizes": one row of more than 2^30 bytes (65 packets) in either
            // protocol - beyond every limit a server might be tempted to hard-code (several GiB of
            // memory for this one case, hence thorough only)
            v.push(gen_case(&mut g, (1 << 30) + 12_345, Assembly::BinRow { cells: 1 }));
            v.push(gen_case(&mut g, (1 << 30) + 12_345, Assembly::TextRow { cells: 1 }));
        }
        v
    }
    fn exec(&self, case: &Case) -> Exec {
        let mut ex = Exec::default();
        let (conv, big_len) = match case.build() {
            Some(x) => x,
            None => {
                ex.class("unrealisable-size-for-assembly");
                return ex;
            }
        };
        ex.nontrivial = big_len >= U24 - 8;
        ex.class(format!("assembly:{}", match case.assembly { Assembly::TextRow { .. } => "text-row", Assembly::BinRow { .. } => "bin-row", Assembly::ErrMsg => "err-msg", Assembly::ColName => "col-name", Assembly::AbandonedRow { .. } => "abandoned-row", Assembly::Layout { .. } => "row-laid-out-against-packet-boundaries" }));
        if big_len >= U24 {
            ex.class(format!("fragments:{}", frame_count(big_len)));
        }
        if big_len % U24 == 0 {
            ex.class("exact-multiple(empty terminator)");
        }
        let mut conv = conv;
        if matches!(case.assembly, Assembly::AbandonedRow { .. }) {
            conv.forget_on_refusal = true;
        }
        if let (Some((mp, cs)), HsKind::V41 { max_packet, charset, .. }) = (case.announced, &mut conv.hs.kind) {
            *max_packet = mp;
            *charset = cs;
            if mp >= 1024 && (mp as usize) < U24 && big_len >= mp as usize {
                ex.class("message-longer-than-the-max_packet_size-the-client-announced");
            }
        }
        if let Assembly::Layout { row, .. } = &case.assembly {
            ex.nontrivial = true;
            for cl in crate::gens::classify_big_layout(row) {
                ex.class(cl);
            }
        }
        if let Some((at, kind)) = case.fault {
            exec_fault(&conv, at, kind, &mut ex);
            return ex;
        }
        let o = run_with(&conv, None, false);
        if let RunResult::Panic(p) = &o.result {
            ex.fail(format!("c04-panic|{}", panic_signature(p)), format!("run_on panicked: {}", o.result.brief()));
            return ex;
        }
        if matches!(case.assembly, Assembly::AbandonedRow { .. }) {
            // Either finish_error refuses (Err; the connection ends) or it abandons the row and
            // reports the error.  In both cases every byte sent must belong to the conformant
            // response: header, the complete rows, then ERR - never a message glued together from
            // the abandoned row and something else.
            let kinds: Vec<ReplyKind> = conv.cmds.iter().map(|sc| sc.cmd.reply_kind()).collect();
            let d = decode_output(&o.out, &kinds);
            let refused = o.calls.iter().any(|k| !k.ok);
            ex.class(if refused { "abandoned-row:refused" } else { "abandoned-row:discarded" });
            if refused {
                if !o.result.is_err() {
                    ex.fail("c04-abandoned-row-result", format!("finish_error failed but run_on returned {}", o.result.brief()));
                }
                // what was sent may stop early (even inside the abandoned row's first fragments),
                // but what did arrive as complete messages must be conformant so far
                if let Some(p) = &d.problem {
                    if !d.truncated_only {
                        ex.fail("c04-abandoned-row-garbage", format!("after a refused finish_error the bytes already sent are malformed: {}", p));
                    }
                }
            } else {
                if let Some(p) = &d.problem {
                    ex.fail("c04-abandoned-row-garbage", format!("finish_error reported success, but the client cannot decode the response: {} (logical message sizes: {:?})", p, d.msgs.iter().map(|m| m.payload.len()).filter(|l| *l > 1000).collect::<Vec<_>>()));
                    return ex;
                }
                // the reply must be: the complete rows, then the ERR the shim reported
                match d.replies.get(1).map(|r| &r.units[..]) {
                    Some([Unit::Set { rows, end_err: Some(e), .. }]) if rows.len() == case.pre_rows && e.code == 1105 => {}
                    other => ex.fail("c04-abandoned-row-reply", format!("expected the {} complete rows followed by ERR 1105, got {:?}", case.pre_rows, other.map(|u| u.iter().map(|x| x.brief()).collect::<Vec<_>>()))),
                }
            }
            return ex;
        }
        if !o.result.is_ok() {
            ex.fail("c04-run-result", format!("run_on returned {}", o.result.brief()));
            return ex;
        }
        let kinds: Vec<ReplyKind> = conv.cmds.iter().map(|sc| sc.cmd.reply_kind()).collect();
        let d = decode_output(&o.out, &kinds);
        // the big message must be present as ONE logical message of exactly the intended size (for
        // a column definition only "at least": its fields beyond table, name, type and flags -
        // org_table, org_name, character set, display length - are the library's to fill)
        let present = if matches!(case.assembly, Assembly::ColName) { d.msgs.iter().any(|m| m.payload.len() >= big_len && m.payload.len() < 2 * big_len + 64) } else { d.msgs.iter().any(|m| m.payload.len() == big_len) };
        if big_len >= 100 && !present {
            let lens: Vec<usize> = d.msgs.iter().map(|m| m.payload.len()).filter(|&l| l > big_len / 4).collect();
            let phys: Vec<usize> = d.phys.iter().map(|p| p.len).filter(|&l| l > big_len / 8).collect();
            ex.fail(
                "c04-message-split-wrong",
                format!("the {}-byte message does not arrive as one logical message: client-side reassembly yields large messages of {:?} bytes (physical packets {:?})", big_len, lens, phys),
            );
            return ex;
        }
        if let Some(p) = &d.problem {
            ex.fail("c04-nonconformant", format!("client decoder rejects the output: {}", p));
            return ex;
        }
        if d.stray_msgs != 0 || d.trailing_bytes != 0 {
            ex.fail("c04-stray-output", format!("{} stray packets / {} stray bytes", d.stray_msgs, d.trailing_bytes));
        }
        let exps = expectations(&conv);
        for (i, (e, r)) in exps.iter().zip(&d.replies).enumerate() {
            if let Err(m) = check_reply(e, r, true) {
                let m: String = m.chars().take(400).collect();
                ex.fail("c04-content-differs", format!("command {}: {}", i, m));
                break;
            }
        }
        // (sequence ids are C05's business and are checked there, also for >= 16 MiB responses)
        ex
    }
}


/// A transport that fails once at one write()/flush() call and then works again.  Everything the
/// server has handed to the transport - before and after the failure - must be a prefix of what it
/// sends when nothing fails: a packet that was cut short can only be continued where it stopped
/// (or the connection given up), never followed by other bytes.
fn exec_fault(conv: &Conversation, at: u32, kind: u8, ex: &mut Exec) {
    use crate::transport::{Fault, OpKind};
    let base = run_with(conv, None, false);
    if !base.result.is_ok() {
        // the fault-free behaviour of this case is judged by the ordinary path
        return;
    }
    let outs: Vec<usize> = base.ops.iter().enumerate().filter(|(_, op)| op.kind != OpKind::Read).map(|(i, _)| i).collect();
    if outs.is_empty() {
        return;
    }
    let k = outs[((at as usize) * (outs.len() - 1) + 500) / 1000];
    let mut cc = conv.clone();
    cc.fault = Fault::ErrOnce(k);
    cc.fault_kind = kind;
    let o = run_with(&cc, None, false);
    let inside = base.ops[k].kind == OpKind::Write && {
        // does the failing write() continue a packet of which a part was already accepted?
        let (phys, _) = split_packets(&base.out);
        phys.iter().any(|p| base.ops[k].at > p.start && base.ops[k].at < p.start + 4 + p.len)
    };
    ex.class(format!("one-off-transport-error:{}", match kind { 2 => "Other", 3 => "BrokenPipe", 4 => "TimedOut", 5 => "WouldBlock", 6 => "Interrupted", _ => "ConnectionReset" }));
    if inside {
        ex.class("failure-inside-a-packet");
        ex.nontrivial = true;
    }
    if let RunResult::Panic(p) = &o.result {
        ex.fail(format!("c04-panic|{}", panic_signature(p)), format!("run_on panicked after a transport error: {}", o.result.brief()));
        return;
    }
    if !inside {
        // The failing call had accepted nothing of a new packet (or was a flush): what the server
        // sends afterwards is its own business as long as it is packets - every byte must belong
        // to a well-formed packet (the last one possibly cut short by the end of the connection).
        let (phys, used) = split_packets(&o.out);
        let rest = &o.out[used..];
        let tail_ok = rest.is_empty() || rest.len() < 4 || {
            let l = rest[0] as usize | (rest[1] as usize) << 8 | (rest[2] as usize) << 16;
            rest.len() - 4 < l
        };
        if !tail_ok {
            ex.fail("c04-bytes-after-failed-write", format!("write/flush call {} failed once at a packet boundary; afterwards the output is not a sequence of packets ({} packets, then {} stray bytes)", k, phys.len(), rest.len()));
        }
        return;
    }
    // (the greeting is left out of the comparison: its connection id and salt may differ from one
    // connection to the next)
    let skip = split_packets(&base.out).0.first().map(|p| p.start + p.len).unwrap_or(0);
    let same_prefix = o.out.len() <= base.out.len() && (o.out.len() <= skip || base.out[skip..o.out.len()] == o.out[skip..]);
    if !same_prefix {
        let common = skip + o.out.iter().zip(&base.out).skip(skip).take_while(|(a, b)| a == b).count();
        ex.fail(
            "c04-bytes-after-failed-write",
            format!(
                "write/flush call {} failed once ({}); the server then handed {} bytes to the transport of which only the first {} continue the stream it sends without the failure ({} bytes): the client sees a malformed packet (run_on: {})",
                k,
                if inside { "inside a packet" } else { "at a packet boundary" },
                o.out.len(),
                common,
                base.out.len(),
                o.result.brief()
            ),
        );
    }
}
