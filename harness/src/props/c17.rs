//! C17 — long data is concatenated in order, delivered once, and never leaks.

use crate::engine::*;
use crate::gen::G;
use crate::props::c16::{build_history, judge_history, Case, Op};
use crate::props::stmt::*;
use crate::wire::*;

pub struct C17;

impl Prop for C17 {
    type Case = Case;
    fn id(&self) -> &'static str {
        "C17"
    }
    fn canary(&self) -> bool {
        true
    }
    fn rule(&self) -> String {
        "cases = 1-3 prepared statements with 1-6 parameters and a history of 1-12 rounds; a round sends 0-5 (one round in ten: 20-120, interleaved over the targets) COM_STMT_SEND_LONG_DATA chunks (sizes 0, 1, 300, 70000, random; one >= 2^24-byte chunk in the enumerated cases) addressed to generated (statement, parameter) targets, possibly for several statements at once, (occasionally followed by a re-prepare that hands out the same id and parameter count again - half of the time after the client closed the statement with its data still pending - which must discard what is pending), then executes one statement whose long-data parameters are omitted inline (as clients do) while the others are sent inline incl. NULLs. One enumerated history executes a single statement more than 65536 (thorough: 131072) times - a streamed value first, inline values afterwards - so that 'delivered to exactly one execution' is also checked at distances where narrow counters wrap; another streams one parameter in more than 65536 (thorough: 200000) one-byte and empty chunks. One execution in five is answered with an error (deadlock, lock wait timeout, unknown statement handler, ...): its long data was delivered to it and must not show up again. Oracle: reference model pending[stmt][param]; at an execution the addressed parameters arrive as bytes equal to the in-order concatenation, the others exactly as encoded; afterwards the statement's pending data is empty (the next execution sees its inline value); other statements' pending data is untouched. Non-trivial = >= 2 chunks for one target, or long data pending for another statement across an execution, or an execution without long data after one with.".into()
    }
    fn assumptions(&self) -> Vec<String> {
        vec!["long data is only addressed to non-NULL parameters of string type, as client libraries do".into()]
    }
    fn cases(&self, tier: Tier) -> u64 {
        tier.pick(60000, 600000)
    }
    fn fuzz_plan(&self, tier: Tier) -> Vec<(&'static str, u64)> {
        if tier == Tier::Thorough {
            vec![("prop", 30_000)]
        } else {
            vec![]
        }
    }
    fn choice_len(&self) -> usize {
        6000
    }
    fn gen(&self, g: &mut G<'_>, _tier: Tier) -> Case {
        let ns = g.usize_in(1, 3);
        let stmts: Vec<(u32, usize)> = (0..ns).map(|i| (i as u32 + 10, g.usize_in(1, 6))).collect();
        let maxr = if g.chance(1, 5) { 12 } else { 4 };
        let rounds = g.usize_in(1, maxr);
        let mut ops = Vec::new();
        // pending targets per statement
        let mut pending: Vec<Vec<bool>> = stmts.iter().map(|(_, n)| vec![false; *n]).collect();
        for _ in 0..rounds {
            let mut nch = g.weighted(&[2, 3, 2, 1, 1, 1]);
            // sometimes a burst: dozens of small chunks interleaved over several parameters (and
            // statements), as a client does that streams several BLOBs in lock-step
            if g.chance(1, 10) {
                nch = g.usize_in(20, 120);
            }
            for _ in 0..nch {
                let s = g.below(ns as u64) as usize;
                let p = g.below(stmts[s].1 as u64) as usize;
                let data = match g.weighted(&[2, 3, 3, 1, 1]) {
                    0 => vec![],
                    1 => g.bytes(1),
                    2 => {
                        let n = g.usize_in(1, 40);
                        g.bytes(n)
                    }
                    3 => crate::gen::pattern(g.raw(), 300),
                    _ => crate::gen::pattern(g.raw(), 70_000),
                };
                ops.push(Op::Long { stmt: s, param: p as u16, data });
                pending[s][p] = true;
                if g.chance(1, 12) {
                    // the shim hands out the same id again: pending long data must not survive
                    ops.push(Op::Reprepare { stmt: s, close_first: g.coin() });
                    for x in pending[s].iter_mut() {
                        *x = false;
                    }
                }
                if g.chance(1, 10) {
                    ops.push(Op::Ping);
                }
            }
            let s = g.below(ns as u64) as usize;
            let params: Vec<Param> = (0..stmts[s].1)
                .map(|i| {
                    if pending[s][i] {
                        // (rarely the client also sets the NULL bit for a streamed parameter: what that
                        // parameter becomes is not asserted, the others still are)
                        let value = if g.chance(1, 12) { PVal::Null } else { PVal::LongData };
                        Param { coltype: *g.pick(&[T_BLOB, T_VAR_STRING, T_LONG_BLOB, T_STRING]), unsigned: false, value }
                    } else {
                        gen_param(g)
                    }
                })
                .collect();
            for x in pending[s].iter_mut() {
                *x = false;
            }
            let reply_err = if g.chance(1, 5) { Some(*g.pick(&[1213u16, 1205, 1243, 1064, 1105, 1317, 1062])) } else { None };
            ops.push(Op::Exec { stmt: s, params, rebind: true, take: None, reply_err });
        }
        Case { stmts, ops, tail_unbound: None, tail_mode: 0 }
    }
    fn fixed(&self, tier: Tier) -> Vec<Case> {
        // multi-packet chunk(s)
        let mut v = Vec::new();
        let sizes: &[usize] = match tier {
            Tier::Quick => &[MAX_PAYLOAD - 7 + 1],
            Tier::Thorough => &[MAX_PAYLOAD - 7 - 1, MAX_PAYLOAD - 7, MAX_PAYLOAD - 7 + 1, 1 << 24],
        };
        for (i, &sz) in sizes.iter().enumerate() {
            v.push(Case {
                stmts: vec![(1, 2), (2, 1)],
                ops: vec![
                    Op::Long { stmt: 0, param: 1, data: b"head-".to_vec() },
                    Op::Long { stmt: 0, param: 1, data: crate::gen::pattern(i as u32 + 5, sz) },
                    Op::Long { stmt: 1, param: 0, data: b"other".to_vec() },
                    Op::Long { stmt: 0, param: 1, data: b"-tail".to_vec() },
                    Op::Exec {
                        stmt: 0,
                        params: vec![Param { coltype: T_LONG, unsigned: false, value: PVal::Int(0x01020304) }, Param { coltype: T_BLOB, unsigned: false, value: PVal::LongData }],
                        rebind: true,
                        take: None,
                        reply_err: None,
                    },
                    Op::Exec { stmt: 1, params: vec![Param { coltype: T_BLOB, unsigned: false, value: PVal::LongData }], rebind: true, take: None, reply_err: None },
                    Op::Exec {
                        stmt: 0,
                        params: vec![Param { coltype: T_LONG, unsigned: false, value: PVal::Int(5) }, Param { coltype: T_BLOB, unsigned: false, value: PVal::Bytes(b"inline".to_vec()) }],
                        rebind: true,
                        take: None,
                        reply_err: None,
                    },
                ],
                tail_unbound: None, tail_mode: 0,
            });
        }
        // "concatenated in arrival order", however much arrives: one parameter accumulating more than
        // the 64 MiB the server advertises as max_allowed_packet, in chunks that are each far below it
        {
            let nchunks = match tier {
                Tier::Quick => 5,
                Tier::Thorough => 9,
            };
            let mut ops: Vec<Op> = (0..nchunks).map(|i| Op::Long { stmt: 0, param: 0, data: crate::gen::pattern(40 + i as u32, (14 << 20) + i) }).collect();
            ops.push(Op::Exec { stmt: 0, params: vec![Param { coltype: T_BLOB, unsigned: false, value: PVal::LongData }], rebind: true, take: None, reply_err: None });
            ops.push(Op::Exec { stmt: 0, params: vec![Param { coltype: T_BLOB, unsigned: false, value: PVal::Bytes(b"after".to_vec()) }], rebind: true, take: None, reply_err: None });
            v.push(Case { stmts: vec![(3, 1)], ops, tail_unbound: None, tail_mode: 0 });
        }
        // "delivered to exactly one execution", for every later execution: one statement executed
        // more often than 8-, 16-bit counters can tell apart (a streamed value once, then inline values)
        let many = match tier {
            Tier::Quick => 65_536 + 300,
            Tier::Thorough => 2 * 65_536 + 300,
        };
        let mut ops = vec![
            Op::Long { stmt: 0, param: 0, data: b"streamed-".to_vec() },
            Op::Long { stmt: 0, param: 0, data: b"blob".to_vec() },
            Op::Exec { stmt: 0, params: vec![Param { coltype: T_BLOB, unsigned: false, value: PVal::LongData }, Param { coltype: T_LONG, unsigned: false, value: PVal::Int(1) }], rebind: true, take: None, reply_err: None },
        ];
        for k in 0..many {
            ops.push(Op::Exec {
                stmt: 0,
                params: vec![Param { coltype: T_BLOB, unsigned: false, value: PVal::Bytes(format!("inline-{}", k).into_bytes()) }, Param { coltype: T_LONG, unsigned: false, value: PVal::Int(k as u64 & 0xffff_ffff) }],
                rebind: k % 251 == 0,
                take: None,
                reply_err: None,
            });
        }
        v.push(Case { stmts: vec![(3, 2)], ops, tail_unbound: None, tail_mode: 0 });
        // one parameter streamed in more chunks than a 16-bit counter holds (1-byte and empty chunks)
        let nch = match tier {
            Tier::Quick => 65_536 + 40,
            Tier::Thorough => 200_000,
        };
        let mut ops: Vec<Op> = (0..nch).map(|k| Op::Long { stmt: 0, param: 1, data: if k % 97 == 5 { vec![] } else { vec![b'a' + (k % 26) as u8] } }).collect();
        ops.push(Op::Exec { stmt: 0, params: vec![Param { coltype: T_LONG, unsigned: false, value: PVal::Int(9) }, Param { coltype: T_BLOB, unsigned: false, value: PVal::LongData }], rebind: true, take: None, reply_err: None });
        ops.push(Op::Exec { stmt: 0, params: vec![Param { coltype: T_LONG, unsigned: false, value: PVal::Int(10) }, Param { coltype: T_BLOB, unsigned: false, value: PVal::Bytes(b"inline".to_vec()) }], rebind: true, take: None, reply_err: None });
        v.push(Case { stmts: vec![(4, 2)], ops, tail_unbound: None, tail_mode: 0 });
        v
    }
    fn exec(&self, case: &Case) -> Exec {
        let mut ex = Exec::default();
        // classification from the model
        let mut chunks: std::collections::HashMap<(usize, u16), usize> = Default::default();
        let mut had_long_exec: std::collections::HashSet<usize> = Default::default();
        for op in &case.ops {
            match op {
                Op::Long { stmt, param, .. } => {
                    let c = chunks.entry((*stmt, *param)).or_insert(0);
                    *c += 1;
                    if *c >= 2 {
                        ex.nontrivial = true;
                        ex.class("multi-chunk-target");
                    }
                    if chunks.values().sum::<usize>() >= 33 && chunks.len() >= 2 {
                        ex.class(">=33-chunks-pending-over->=2-targets");
                    }
                }
                Op::Exec { stmt, params, .. } => {
                    if chunks.keys().any(|(s, _)| s != stmt) {
                        ex.nontrivial = true;
                        ex.class("pending-for-other-statement-across-execute");
                    }
                    let has_long = params.iter().any(|p| matches!(p.value, PVal::LongData));
                    if !has_long && had_long_exec.contains(stmt) {
                        ex.nontrivial = true;
                        ex.class("inline-execute-after-long-data-execute");
                    }
                    if has_long {
                        had_long_exec.insert(*stmt);
                    }
                    chunks.retain(|(s, _), _| s != stmt);
                }
                Op::Ping => {}
                Op::Reprepare { stmt, close_first } => {
                    if chunks.keys().any(|(s, _)| s == stmt) {
                        ex.nontrivial = true;
                        ex.class(if *close_first { "close-with-pending-long-data-then-prepare" } else { "re-prepare-with-pending-long-data" });
                    }
                    chunks.retain(|(s, _), _| s != stmt);
                }
            }
        }
        let (conv, _) = build_history(case);
        if conv.cmds.iter().any(|sc| sc.cmd.payload_len_hint() >= MAX_PAYLOAD) {
            ex.class("multi-packet-chunk");
        }
        if case.ops.len() > 60_000 {
            ex.class("one-statement-executed->65536-times");
        }
        judge_history("c17", case, &mut ex, true);
        ex
    }
}
