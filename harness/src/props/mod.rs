pub mod c01;
pub mod c03;
