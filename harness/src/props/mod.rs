pub mod c01;
