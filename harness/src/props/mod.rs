pub mod c01;
pub mod c03;
pub mod c05;
pub mod c12;
pub mod c04;
