pub mod c01;
pub mod c03;
pub mod c05;
pub mod c12;
pub mod c04;
pub mod c06;
pub mod c07;
pub mod c15;
