//! C20 — no client byte sequence can crash or wedge a connection.

use crate::conv::*;
use crate::engine::*;
use crate::gen::G;
use crate::gens::*;
use crate::props::stmt::*;
use crate::transport::*;
use crate::wire::*;
use serde::{Deserialize, Serialize};

pub struct C20;

mod hexser {
    use serde::{Deserialize, Deserializer, Serializer};
    pub fn serialize<S: Serializer>(v: &Vec<u8>, s: S) -> Result<S::Ok, S::Error> {
        let mut out = String::with_capacity(v.len() * 2);
        for b in v {
            out.push_str(&format!("{:02x}", b));
        }
        s.serialize_str(&out)
    }
    pub fn deserialize<'de, D: Deserializer<'de>>(d: D) -> Result<Vec<u8>, D::Error> {
        let s = String::deserialize(d)?;
        let mut v = Vec::with_capacity(s.len() / 2);
        let b = s.as_bytes();
        let mut i = 0;
        while i + 1 < b.len() {
            let h = (b[i] as char).to_digit(16).ok_or_else(|| serde::de::Error::custom("bad hex"))?;
            let l = (b[i + 1] as char).to_digit(16).ok_or_else(|| serde::de::Error::custom("bad hex"))?;
            v.push((h * 16 + l) as u8);
            i += 2;
        }
        Ok(v)
    }
}

#[derive(Clone, Debug, Serialize, Deserialize)]
pub enum Case {
    /// the complete client byte stream
    Stream {
        #[serde(with = "hexser")]
        bytes: Vec<u8>,
        /// what the auto shim answers to prepares: (id, nparams)
        stmts: Vec<(u32, usize)>,
        chunk: usize,
    },
    /// enumerated family: payloads number [from, to) of `family`
    Enum { family: u8, from: u64, to: u64 },
    /// multi-fragment request with explicit fragment sequence ids; `window` = read size used inside
    /// small windows around every fragment header (0 = plain 4 MiB reads)
    Fragments {
        sizes: Vec<usize>,
        seqs: Vec<u8>,
        #[serde(default)]
        window: usize,
    },
}

pub const ALPHA12: [u8; 12] = [0x00, 0x01, 0x02, 0x03, 0x04, 0x0e, 0x16, 0x17, 0x18, 0x19, 0xff, 0x05];
pub const ALPHA8: [u8; 8] = [0x00, 0x01, 0x03, 0x08, 0xfe, 0xff, 0x80, 0xfc];
pub const ALPHA6: [u8; 6] = [0x00, 0x01, 0x03, 0x17, 0xff, 0x04];
/// characters that matter to the built-in statement recognisers
pub const ALPHA_SQL: [u8; 7] = [b'`', b';', b' ', b'a', b'\t', b'@', 0xc3];

/// the k-th string over `alpha` in length-then-lexicographic order, lengths 0..=maxlen
fn kth(alpha: &[u8], maxlen: usize, mut k: u64) -> Option<Vec<u8>> {
    let a = alpha.len() as u64;
    let mut len = 0;
    let mut count = 1u64;
    while k >= count {
        k -= count;
        len += 1;
        count *= a;
        if len > maxlen {
            return None;
        }
    }
    let mut v = vec![0u8; len];
    for i in (0..len).rev() {
        v[i] = alpha[(k % a) as usize];
        k /= a;
    }
    Some(v)
}

fn total(alpha: usize, maxlen: usize) -> u64 {
    (0..=maxlen).map(|l| (alpha as u64).pow(l as u32)).sum()
}

/// families: 0 = payload after a valid handshake; 1 = payload as the handshake response;
/// 2 = raw stream after the handshake (no framing); 3 = raw stream from the start;
/// 4..8 = execute parameter-block bodies for a statement declaring 0, 1, 2, 9 parameters
pub fn family_size(f: u8) -> u64 {
    match f {
        0 | 1 => total(12, 4),
        2 | 3 => total(6, 5),
        4..=7 => total(8, 4),
        8..=11 => total(7, 4),
        12 => total(6, 3) * 4,
        _ => 0,
    }
}

const SQL_PREFIXES: [&[u8]; 4] = [b"USE ", b"use ", b"SELECT @@", b"USE"];

const EXEC_NPARAMS: [usize; 4] = [0, 1, 2, 9];

fn valid_handshake() -> Vec<u8> {
    let mut v = Vec::new();
    frame_into(&mut v, &Handshake::default_user("verif").payload(), 1);
    v
}

fn family_stream(f: u8, k: u64) -> Option<(Vec<u8>, Vec<(u32, usize)>)> {
    match f {
        0 => {
            let p = kth(&ALPHA12, 4, k)?;
            let mut v = valid_handshake();
            frame_into(&mut v, &p, 0);
            frame_into(&mut v, &[COM_PING], 0);
            Some((v, vec![(0, 0), (0x0101_0101, 1)]))
        }
        1 => {
            let p = kth(&ALPHA12, 4, k)?;
            let mut v = Vec::new();
            frame_into(&mut v, &p, 1);
            frame_into(&mut v, &[COM_PING], 0);
            Some((v, vec![]))
        }
        2 => {
            let p = kth(&ALPHA6, 5, k)?;
            let mut v = valid_handshake();
            v.extend_from_slice(&p);
            Some((v, vec![]))
        }
        3 => Some((kth(&ALPHA6, 5, k)?, vec![])),
        4..=7 => {
            let n = EXEC_NPARAMS[(f - 4) as usize];
            let body = kth(&ALPHA8, 4, k)?;
            let mut v = valid_handshake();
            frame_into(&mut v, &com_simple(COM_STMT_PREPARE, b"p"), 0);
            let mut e = vec![COM_STMT_EXECUTE];
            e.extend_from_slice(&7u32.to_le_bytes());
            e.push(0);
            e.extend_from_slice(&1u32.to_le_bytes());
            e.extend_from_slice(&body);
            frame_into(&mut v, &e, 0);
            frame_into(&mut v, &[COM_PING], 0);
            Some((v, vec![(7, n)]))
        }
        _ => None,
    }
}

/// the case a raw fuzz input denotes
pub fn raw_case(data: &[u8]) -> Case {
    let mode = data[0] & 3;
    let chunk = [0usize, 1, 3, 4096][((data[0] >> 2) & 3) as usize];
    let body = &data[1..];
    let stmts = vec![(0u32, 0usize), (1, 1), (0x0101_0101, 2), (7, 9)];
    let bytes = match mode {
        0 => {
            // framed commands: split the body at 0xff markers? no - take the body as ONE stream of packets
            let mut v = valid_handshake();
            // a prepare first so that executes can hit a live statement
            frame_into(&mut v, &com_simple(COM_STMT_PREPARE, b"p"), 0);
            frame_into(&mut v, &com_simple(COM_STMT_PREPARE, b"p"), 0);
            v.extend_from_slice(body);
            v
        }
        1 => {
            // the body is the payload of one packet
            let mut v = valid_handshake();
            frame_into(&mut v, &com_simple(COM_STMT_PREPARE, b"p"), 0);
            frame_into(&mut v, &com_simple(COM_STMT_PREPARE, b"p"), 0);
            frame_into(&mut v, body, 0);
            frame_into(&mut v, &[COM_PING], 0);
            v
        }
        2 => {
            // the body is the handshake response payload
            let mut v = Vec::new();
            frame_into(&mut v, body, 1);
            frame_into(&mut v, &[COM_PING], 0);
            v
        }
        _ => body.to_vec(),
    };
    Case::Stream { bytes, stmts, chunk }
}

pub struct Verdict {
    pub key: String,
    pub msg: String,
}

/// run one client byte stream; returns a failure if run_on panicked / wedged / wrote garbage
pub fn judge_stream(bytes: &[u8], stmts: &[(u32, usize)], chunk: usize) -> (Option<Verdict>, RunResult) {
    let mut conv = Conversation::new(vec![], vec![]);
    conv.auto_ids = Some(stmts.iter().map(|s| Some(*s)).collect());
    // the stream is handed over verbatim: bypass the conversation encoder
    let tr = Transport::new(bytes.to_vec(), if chunk == 0 { Schedule::all_at_once() } else { Schedule::fixed(chunk) }, Fault::None);
    let o = run_raw(&conv, tr);
    let v = match &o.result {
        RunResult::Panic(p) if p.msg.contains(WEDGE_MARKER) => Some(Verdict { key: "c20-wedge".into(), msg: format!("server keeps reading after the end of the stream: {}", p.msg) }),
        RunResult::Panic(p) => Some(Verdict { key: format!("c20-panic|{}", panic_signature(p)), msg: format!("run_on panicked on client bytes {}: {}", hex(bytes), o.result.brief()) }),
        _ => {
            let (_, used) = split_packets(&o.out);
            // the first time the server asks for input beyond what the client sent is where a real
            // client would be waiting: whatever the server has to say about the bytes it has must
            // be in the client's hands by then (nothing it writes later can be caused by the client)
            // (only for streams that are whole packets with a complete last message: about a stream
            // that stops in mid-packet a server may have something to say once it sees the end)
            let (cphys, cused) = split_packets(bytes);
            let whole = cused == bytes.len() && cphys.last().map(|p| p.len != MAX_PAYLOAD).unwrap_or(true);
            let waiting = o.ops.iter().find(|op| whole && op.kind == OpKind::Read && !op.failed && op.n == 0 && op.at >= bytes.len());
            if used != o.out.len() {
                Some(Verdict { key: "c20-garbage-output".into(), msg: format!("server output is not a sequence of well-formed packets ({} stray bytes) for client bytes {}", o.out.len() - used, hex(bytes)) })
            } else if let Some(op) = waiting.filter(|op| op.flushed != o.out.len()) {
                Some(Verdict {
                    key: "c20-wedge-reply-withheld".into(),
                    msg: format!(
                        "when the server first waited for more input than the client's {} bytes, only {} of the {} bytes it had to say were flushed: a client waiting for the rest waits forever (client bytes {})",
                        bytes.len(),
                        op.flushed,
                        o.out.len(),
                        hex(&bytes[..bytes.len().min(200)])
                    ),
                })
            } else {
                None
            }
        }
    };
    (v, o.result)
}

// ---------------------------------------------------------------------------------------
// grammar-aware mutation

fn gen_valid_cmds(g: &mut G<'_>, stmts: &mut Vec<(u32, usize)>) -> Vec<Vec<u8>> {
    let n = g.usize_in(1, 6);
    let mut out = Vec::new();
    // the last execute sent, with its statement id (for sending the very same bytes again)
    let mut last_exec: Option<(u32, Vec<u8>)> = None;
    let mut last_params: Option<(u32, Vec<Param>)> = None;
    for _ in 0..n {
        match g.weighted(&[4, 3, 5, 2, 2, 1, 1, 1, 3, if last_exec.is_some() { 3 } else { 0 }, if last_params.is_some() { 4 } else { 0 }]) {
            10 => {
                // the statement executed last once more, reusing the bound types (no type block):
                // same types, fresh values and another NULL pattern
                let (id, prev) = last_params.clone().unwrap();
                let mut params: Vec<Param> = prev.iter().map(|p| gen_param_of(g, p.coltype, p.unsigned, true)).collect();
                if params.len() >= 2 && g.coin() {
                    // ... or exactly the previous NULL pattern moved on by one parameter (as many
                    // NULLs as before, elsewhere)
                    let n = params.len();
                    for i in 0..n {
                        let was_null = matches!(prev[(i + n - 1) % n].value, PVal::Null);
                        if was_null {
                            params[i].value = PVal::Null;
                        } else if matches!(params[i].value, PVal::Null) {
                            params[i] = gen_param_of(g, params[i].coltype, params[i].unsigned, false);
                        }
                    }
                }
                let e = com_execute(id, 0, 1, &params, false);
                last_exec = Some((id, e.clone()));
                last_params = Some((id, params));
                out.push(e);
            }
            9 => {
                // the same execute once more, byte for byte - possibly after long data for one of
                // its parameters, which makes the same bytes mean something else (or nothing valid)
                let (id, bytes) = last_exec.clone().unwrap();
                if g.chance(2, 3) {
                    let n = g.usize_in(0, 5);
                    out.push(com_long_data(id, g.below(3) as u16, &g.bytes(n)));
                }
                out.push(bytes);
            }
            8 => {
                // the statements the library answers itself
                let q = if g.coin() { gen_use_stmt(g).0 } else { format!("{}{}", g.pick(&["SELECT @@", "select @@"]), g.pick(&["max_allowed_packet", "version_comment limit 1", "", "x"])) };
                out.push(com_simple(COM_QUERY, q.as_bytes()));
            }
            0 => out.push(com_simple(COM_QUERY, gen_query_text(g).as_bytes())),
            1 => {
                let np = gen_nparams(g).min(20);
                stmts.push((stmts.len() as u32 + 1, np));
                out.push(com_simple(COM_STMT_PREPARE, b"prep"));
            }
            2 => {
                if stmts.is_empty() {
                    stmts.push((1, g.usize_in(0, 4)));
                    out.push(com_simple(COM_STMT_PREPARE, b"prep"));
                }
                let (id, np) = *g.pick(&stmts[..]);
                let params: Vec<Param> = (0..np).map(|_| gen_param(g)).collect();
                // (sometimes after long data for one of the parameters, although all are sent inline)
                if np > 0 && g.chance(1, 6) {
                    let n = g.usize_in(0, 5);
                    out.push(com_long_data(id, g.below(np as u64) as u16, &g.bytes(n)));
                }
                let e = com_execute(id, 0, 1, &params, true);
                last_exec = Some((id, e.clone()));
                last_params = Some((id, params.clone()));
                out.push(e);
            }
            3 => {
                if let Some(&(id, _)) = stmts.first() {
                    let n = g.usize_in(0, 8);
                    out.push(com_long_data(id, g.below(3) as u16, &g.bytes(n)));
                } else {
                    out.push(vec![COM_PING]);
                }
            }
            4 => out.push(com_simple(COM_INIT_DB, gen_name(g).as_bytes())),
            5 => out.push(com_close(g.below(4) as u32)),
            6 => out.push(com_simple(COM_FIELD_LIST, b"t\0")),
            _ => out.push(vec![COM_PING]),
        }
    }
    out
}

fn mutate_payload(g: &mut G<'_>, p: &mut Vec<u8>) -> &'static str {
    match g.weighted(&[4, 3, 3, 2, 2, 2, 1, 1]) {
        0 => {
            let k = g.usize_in(0, p.len());
            p.truncate(k);
            "truncate"
        }
        1 => {
            let n = g.usize_in(1, 12);
            let extra = g.bytes(n);
            p.extend_from_slice(&extra);
            "extend"
        }
        2 => {
            if !p.is_empty() {
                let i = g.below(p.len() as u64) as usize;
                p[i] = *g.pick(&[0u8, 1, 0xff, 0xfe, 0xfb, 0xfc, 0x80, 0x7f, 6, 14, 17, 243, 244]);
            }
            "set-byte"
        }
        3 => {
            if !p.is_empty() {
                let i = g.below(p.len() as u64) as usize;
                p[i] ^= 1 << g.below(8);
            }
            "flip-bit"
        }
        4 => {
            if !p.is_empty() {
                p[0] = g.byte();
            }
            "command-byte"
        }
        5 => {
            if p.len() > 2 {
                let i = g.usize_in(1, p.len() - 1);
                let n = g.usize_in(1, (p.len() - i).min(6));
                p.drain(i..i + n);
            }
            "delete-range"
        }
        7 => {
            // a long, valid-UTF-8, unterminated text field: the fixed-size head of the payload (or
            // a prefix of any length) followed by ASCII and then a run of 2-, 3- or 4-byte
            // characters, so that character boundaries fall at every residue of every offset
            let keep = match g.below(4) {
                0 => 32.min(p.len()),
                1 => 1.min(p.len()),
                2 => p.len(),
                _ => g.usize_in(0, p.len()),
            };
            p.truncate(keep);
            let ascii = g.usize_in(0, 300);
            p.extend(std::iter::repeat(b'a' + g.below(26) as u8).take(ascii));
            let ch = *g.pick(&["\u{e9}", "\u{20ac}", "\u{1f600}", "\u{7ff}", "\u{ffff}"]);
            let n = g.usize_in(1, 200);
            for _ in 0..n {
                p.extend_from_slice(ch.as_bytes());
            }
            if g.chance(1, 4) {
                p.push(0);
            }
            "long-utf8-text"
        }
        _ => {
            let i = g.usize_in(0, p.len());
            let n = g.usize_in(1, 5);
            let ins = g.bytes(n);
            for (k, b) in ins.into_iter().enumerate() {
                p.insert(i + k, b);
            }
            "insert"
        }
    }
}

impl Prop for C20 {
    type Case = Case;
    fn id(&self) -> &'static str {
        "C20"
    }
    fn rule(&self) -> String {
        "cases = (1) enumerated, exhaustive: every packet payload of length 0-4 over a 12-symbol alphabet (all command bytes, 0x00, 0xff, an unknown command) after a valid handshake and as the handshake response; every raw (unframed) stream of length <= 5 over a 6-symbol alphabet after the handshake and from the start; every COM_STMT_EXECUTE parameter-block body of length 0-4 over an 8-symbol alphabet for statements declaring 0, 1, 2 and 9 parameters; every COM_QUERY consisting of a built-in prefix (`USE `, `use `, `SELECT @@`, `USE`) and a tail of length 0-4 over {back-quote, ';', blank, 'a', tab, '@', a broken UTF-8 lead byte}; (2) generated: grammar-aware mutations of valid conversations (truncate / extend / delete / insert at any offset of any command or of the handshake response, set bytes to boundary values, flip bits, replace the tail of a payload by 1-1000 bytes of valid unterminated UTF-8 text whose multi-byte characters straddle every offset, replace the command byte, declared-vs-sent parameter count mismatches, unknown type codes, executes without bound types, every request sequence id 0-255, header length fields larger or smaller than the payload) and random byte streams, under 1-byte to whole-stream read chunkings; (3) enumerated multi-fragment (>= 2^24-1 byte) requests with in-order, out-of-order, repeated and wrapping fragment sequence ids, each under plain 4 MiB reads and under reads that end 1-3 bytes into every fragment header. Oracle: run_on returns Ok or Err, never panics, never keeps reading after end of stream (read budget), everything it wrote is a sequence of well-formed packets, and - for streams made of whole packets - all of it was flushed by the first time the server asked for more input than the client had sent (a waiting client must have every reply in hand). One generated stream in ten ends exactly at 4096, 8192, 16384 or 32768 bytes. Known panic sites are matched by (file, source line text, message) signature and reported as KNOWN-FINDING; any other signature is a violation. Non-trivial = the stream differs from every valid conversation (all enumerated and mutated cases) and is at least 1 byte long.".into()
    }
    fn exhaustive_note(&self, _tier: Tier) -> Option<String> {
        Some("payloads of length <= 4 over 12 symbols (as command and as handshake), raw streams of length <= 5 over 6 symbols (after and instead of the handshake), execute parameter-block bodies of length <= 4 over 8 symbols for 0/1/2/9 declared parameters, built-in query prefixes with every tail of length <= 4 over 7 symbols".into())
    }
    fn cases(&self, tier: Tier) -> u64 {
        tier.pick(1000000, 8000000)
    }
    fn fuzz_plan(&self, tier: Tier) -> Vec<(&'static str, u64)> {
        if tier == Tier::Thorough {
            vec![("raw", 400_000), ("prop", 250_000)]
        } else {
            vec![]
        }
    }
    fn choice_len(&self) -> usize {
        2048
    }
    fn gen(&self, g: &mut G<'_>, _tier: Tier) -> Case {
        let chunk = *g.pick(&[0usize, 0, 1, 2, 3, 5, 16, 4096]);
        let mut stmts = Vec::new();
        // handshake: valid, mutated, or random
        let mut hs = Handshake::default_user("u").payload();
        let mut hs_seq = 1u8;
        let mode = g.weighted(&[6, 2, 1, 1]);
        if mode == 1 {
            mutate_payload(g, &mut hs);
            if g.chance(1, 3) {
                hs_seq = g.byte();
            }
        } else if mode == 2 {
            let n = g.usize_in(0, 80);
            hs = g.bytes(n);
        }
        let mut bytes = Vec::new();
        if mode == 3 {
            // entirely random stream
            let n = g.usize_in(0, 200);
            bytes = g.bytes(n);
            return Case::Stream { bytes, stmts, chunk };
        }
        frame_into(&mut bytes, &hs, hs_seq);
        let cmds = gen_valid_cmds(g, &mut stmts);
        let n = cmds.len();
        let victim = g.below(n as u64) as usize;
        for (i, mut p) in cmds.into_iter().enumerate() {
            let mut seq = if g.chance(1, 5) { g.byte() } else { 0 };
            if i == victim || g.chance(1, 6) {
                let times = g.usize_in(1, 3);
                for _ in 0..times {
                    mutate_payload(g, &mut p);
                }
                if g.chance(1, 4) {
                    seq = *g.pick(&[255u8, 254, 1, 128]);
                }
            }
            // header length field: correct, or lying
            let lie = if g.chance(1, 12) { Some(g.usize_in(0, p.len() + 6)) } else { None };
            match lie {
                None => {
                    frame_into(&mut bytes, &p, seq);
                }
                Some(l) => {
                    bytes.extend_from_slice(&(l as u32).to_le_bytes()[..3]);
                    bytes.push(seq);
                    bytes.extend_from_slice(&p);
                }
            }
        }
        if g.chance(1, 6) {
            let n = g.usize_in(1, 7);
            let junk = g.bytes(n);
            bytes.extend_from_slice(&junk);
        }
        // sometimes the shim declares fewer / more parameters than the client thinks
        if g.chance(1, 5) {
            for s in stmts.iter_mut() {
                s.1 = g.usize_in(0, 12);
            }
        }
        let mut chunk = chunk;
        if g.chance(1, 10) {
            // the stream ends exactly where a power-of-two buffer of 4 KiB or more ends: one more
            // (valid) query of the right length, everything delivered as fast as it is asked for
            let target = [4096usize, 8192, 16_384, 32_768].iter().copied().find(|&t| t >= bytes.len() + 5).unwrap_or(0);
            if target > 0 {
                let n = target - bytes.len() - 5;
                let mut p = vec![COM_QUERY];
                p.extend((0..n).map(|i| b'a' + (i % 23) as u8));
                frame_into(&mut bytes, &p, 0);
                chunk = *g.pick(&[0usize, 0, 1 << 20, target / 2]);
            }
        }
        Case::Stream { bytes, stmts, chunk }
    }
    fn fixed(&self, tier: Tier) -> Vec<Case> {
        let mut v = Vec::new();
        for f in 0..13u8 {
            let n = family_size(f);
            let step = 512;
            let mut i = 0;
            while i < n {
                v.push(Case::Enum { family: f, from: i, to: (i + step).min(n) });
                i += step;
            }
        }
        // fragment sequence ids
        let u = MAX_PAYLOAD;
        let mut frag = |sizes: Vec<usize>, seqs: Vec<u8>| {
            v.push(Case::Fragments { sizes: sizes.clone(), seqs: seqs.clone(), window: 0 });
            // the same with reads that end 1, 2 or 3 bytes into each fragment header
            let w = 1 + (sizes.len() + seqs[0] as usize) % 3;
            v.push(Case::Fragments { sizes, seqs, window: w });
        };
        frag(vec![u, 10], vec![0, 1]);
        frag(vec![u, 10], vec![0, 0]);
        frag(vec![u, 10], vec![5, 3]);
        frag(vec![u, 0], vec![255, 0]);
        frag(vec![u, 10], vec![255, 0]);
        frag(vec![u, 10], vec![254, 255]);
        if tier == Tier::Thorough {
            frag(vec![u, u, 3], vec![0, 1, 2]);
            frag(vec![u, u, 3], vec![0, 2, 1]);
            frag(vec![u, u, 3], vec![254, 255, 0]);
            frag(vec![u, u, 0], vec![0, 1, 1]);
        }
        v
    }
    fn exec(&self, case: &Case) -> Exec {
        let mut ex = Exec::default();
        match case {
            Case::Stream { bytes, stmts, chunk } => {
                ex.nontrivial = !bytes.is_empty();
                ex.class("generated-stream");
                let (v, r) = judge_stream(bytes, stmts, *chunk);
                ex.class(match r {
                    RunResult::Ok => "outcome:Ok",
                    RunResult::ErrIo { .. } | RunResult::ErrTagged(_) => "outcome:Err",
                    RunResult::Panic(_) => "outcome:panic",
                });
                if let Some(v) = v {
                    ex.fail(v.key, v.msg);
                }
            }
            Case::Enum { family, from, to } => {
                ex.nontrivial = true;
                ex.class(format!("enumerated-family-{}", family));
                let mut n = 0u64;
                for k in *from..*to {
                    if let Some((bytes, stmts)) = family_stream(*family, k) {
                        n += 1;
                        for chunk in [0usize, 1] {
                            let (v, _) = judge_stream(&bytes, &stmts, chunk);
                            if let Some(v) = v {
                                ex.fail(v.key, v.msg);
                            }
                        }
                    }
                }
                ex.count("enumerated_streams", n);
                // report each distinct key once per case
                ex.failures.sort_by(|a, b| a.key.cmp(&b.key));
                ex.failures.dedup_by(|a, b| a.key == b.key);
            }
            Case::Fragments { sizes, seqs, window } => {
                ex.nontrivial = true;
                ex.class("fragment-sequence-ids");
                let mut bytes = valid_handshake();
                for (i, (&sz, &seq)) in sizes.iter().zip(seqs).enumerate() {
                    bytes.extend_from_slice(&(sz as u32).to_le_bytes()[..3]);
                    bytes.push(seq);
                    let start = bytes.len();
                    bytes.resize(start + sz, b'a');
                    if i == 0 && sz > 0 {
                        bytes[start] = COM_QUERY;
                    }
                }
                frame_into(&mut bytes, &[COM_PING], 0);
                let (v, _) = if *window == 0 {
                    judge_stream(&bytes, &[], 1 << 22)
                } else {
                    // reads of `window` bytes inside +-6-byte windows around every packet header
                    let (phys, _) = split_packets(&bytes);
                    let mut sched = Schedule { sizes: vec![*window], hot: vec![], big: 1 << 22, write_accept: vec![] };
                    let mut p = 0usize;
                    let mut hdrs = vec![];
                    // header offsets of the client's packets (the lying fragments are laid out back to back)
                    while p + 4 <= bytes.len() {
                        hdrs.push(p);
                        let len = u32::from_le_bytes([bytes[p], bytes[p + 1], bytes[p + 2], 0]) as usize;
                        p += 4 + len;
                    }
                    let _ = phys;
                    sched.hot = hdrs.iter().map(|&h| (h.saturating_sub(6), h + 6)).collect();
                    let mut conv = Conversation::new(vec![], vec![]);
                    conv.auto_ids = Some(vec![]);
                    let tr = Transport::new(bytes.clone(), sched, Fault::None);
                    let o = run_raw(&conv, tr);
                    let verdict = match &o.result {
                        RunResult::Panic(p) if p.msg.contains(WEDGE_MARKER) => Some(Verdict { key: "c20-wedge".into(), msg: p.msg.clone() }),
                        RunResult::Panic(p) => Some(Verdict { key: format!("c20-panic|{}", panic_signature(p)), msg: format!("run_on panicked: {}", o.result.brief()) }),
                        _ => None,
                    };
                    (verdict, o.result)
                };
                if let Some(mut v) = v {
                    v.msg = format!("fragments {:?} with sequence ids {:?}: {}", sizes, seqs, v.msg.chars().rev().take(300).collect::<String>().chars().rev().collect::<String>());
                    ex.fail(v.key, v.msg);
                }
            }
        }
        ex
    }
}
