//! C13 — errors reach the client with the exact code, SQLSTATE and message.

use crate::conv::*;
use crate::engine::*;
use crate::gen::G;
use crate::gens::*;
use crate::shim::*;
use crate::vals::*;
use crate::wire::*;
use msql_srv::ErrorKind;
use mysql_common::packets::ErrPacket;
use mysql_common::proto::MyDeserialize;
use serde::{Deserialize, Serialize};

pub struct C13;

#[derive(Clone, Copy, Debug, Serialize, Deserialize, PartialEq)]
pub enum Site {
    QueryFirst,
    AfterCompleteOne,
    AfterFinishedSet,
    FinishErrorText(usize),
    FinishErrorBin(usize),
    /// finish_error while the last row is still open (write_col without end_row), k rows before it
    FinishErrorTextOpen(usize),
    FinishErrorBinOpen(usize),
    ExecuteFirst,
    Prepare,
    InitDb,
    UseStmt,
    /// the shim reports the error (query / finish_error after k rows) and then gives the
    /// connection up by returning Err from the callback
    QueryThenFatal,
    FinishErrorThenFatal(usize),
}

pub const SITES: [Site; 17] = [
    Site::QueryFirst,
    Site::AfterCompleteOne,
    Site::AfterFinishedSet,
    Site::FinishErrorText(0),
    Site::FinishErrorText(3),
    Site::FinishErrorBin(0),
    Site::FinishErrorBin(2),
    Site::FinishErrorTextOpen(0),
    Site::FinishErrorTextOpen(2),
    Site::FinishErrorBinOpen(0),
    Site::FinishErrorBinOpen(2),
    Site::ExecuteFirst,
    Site::Prepare,
    Site::InitDb,
    Site::UseStmt,
    Site::QueryThenFatal,
    Site::FinishErrorThenFatal(1),
];

#[derive(Clone, Debug, Serialize, Deserialize)]
pub enum MsgSpec {
    Lit(Vec<u8>),
    Pat { seed: u32, len: usize },
}

impl MsgSpec {
    fn get(&self) -> Vec<u8> {
        match self {
            MsgSpec::Lit(v) => v.clone(),
            MsgSpec::Pat { seed, len } => big_bytes(*seed, *len),
        }
    }
}

#[derive(Clone, Debug, Serialize, Deserialize)]
pub enum Case {
    /// all kinds in [from, to) of the build-time list at one site with one message
    Sweep {
        from: usize,
        to: usize,
        site: Site,
        msg: MsgSpec,
        /// which legal handshake response opened the connection: 0 = the usual 4.1 one,
        /// 1 = pre-4.1 layout, 2.. = 4.1 layout with capability mask `hs` (PROTOCOL_41 forced)
        #[serde(default)]
        hs: u32,
    },
    /// table checks: From<u16> round trip, SQLSTATE shape, curated pairs, reference tables
    Tables,
}

const CURATED: &[(u16, &str)] = &[
    (1045, "28000"),
    (1046, "3D000"),
    (1049, "42000"),
    (1050, "42S01"),
    (1051, "42S02"),
    (1054, "42S22"),
    (1062, "23000"),
    (1064, "42000"),
    (1105, "HY000"),
    (1146, "42S02"),
    (1213, "40001"),
    (1040, "08004"),
    (1044, "42000"),
    (1048, "23000"),
    (1205, "HY000"),
    (1216, "23000"),
    (1217, "23000"),
    (1452, "23000"),
];

fn conv_for(site: Site, kind: u16, msg: &[u8]) -> (Conversation, usize) {
    let cols_t = vec![ColSpec::simple("a", T_LONG, 0), ColSpec::simple("b", T_VAR_STRING, 0)];
    let row = |i: usize| RowProg { cells: vec![Val::plain(Base::I32(i as i32)), Val::plain(Base::StrRef("x".into()))], form: RowForm::WriteRow, offers: vec![] };
    let err = Step::Error { kind, msg: msg.to_vec() };
    let prep = (Cmd::Prepare { text: Blob::text("p") }, Action::Prepare(PrepProg::Reply { id: 1, params: vec![], cols: vec![] }));
    let exec = Cmd::Execute { id: 1, params: vec![], send_types: false, flags: 0, iterations: 1 };
    let q = Cmd::Query { text: Blob::text("q") };
    let (cmds, actions, idx) = match site {
        Site::QueryFirst => (vec![q], vec![Action::Result(Program { steps: vec![err] })], 0),
        Site::AfterCompleteOne => (vec![q], vec![Action::Result(Program { steps: vec![Step::CompleteOne { rows: 3, id: 4 }, err] })], 0),
        Site::AfterFinishedSet => (
            vec![q],
            vec![Action::Result(Program { steps: vec![Step::Set { cols: cols_t.clone(), rows: vec![row(1)], end: SetEnd::FinishOne }, err] })],
            0,
        ),
        Site::FinishErrorText(k) => (
            vec![q],
            vec![Action::Result(Program { steps: vec![Step::Set { cols: cols_t.clone(), rows: (0..k).map(row).collect(), end: SetEnd::FinishError { kind, msg: msg.to_vec() } }] })],
            0,
        ),
        Site::FinishErrorBin(k) => (
            vec![prep.0, exec],
            vec![prep.1, Action::Result(Program { steps: vec![Step::Set { cols: cols_t.clone(), rows: (0..k).map(row).collect(), end: SetEnd::FinishError { kind, msg: msg.to_vec() } }] })],
            1,
        ),
        Site::FinishErrorTextOpen(k) | Site::FinishErrorBinOpen(k) => {
            let mut rows: Vec<RowProg> = (0..k).map(row).collect();
            let mut open = row(k);
            open.form = RowForm::ColsOpen;
            rows.push(open);
            let prog = Program { steps: vec![Step::Set { cols: cols_t.clone(), rows, end: SetEnd::FinishError { kind, msg: msg.to_vec() } }] };
            if matches!(site, Site::FinishErrorTextOpen(_)) {
                (vec![q], vec![Action::Result(prog)], 0)
            } else {
                (vec![prep.0, exec], vec![prep.1, Action::Result(prog)], 1)
            }
        }
        Site::ExecuteFirst => (vec![prep.0, exec], vec![prep.1, Action::Result(Program { steps: vec![err] })], 1),
        Site::Prepare => (vec![Cmd::Prepare { text: Blob::text("p") }], vec![Action::Prepare(PrepProg::Error { kind, msg: msg.to_vec() })], 0),
        Site::InitDb => (vec![Cmd::InitDb { name: Blob::text("db") }], vec![Action::Init(InitProg::Error { kind, msg: msg.to_vec() })], 0),
        Site::UseStmt => (vec![Cmd::Query { text: Blob::text("USE db") }], vec![Action::Init(InitProg::Error { kind, msg: msg.to_vec() })], 0),
        Site::QueryThenFatal => (vec![q], vec![Action::Result(Program { steps: vec![err] })], 0),
        Site::FinishErrorThenFatal(k) => (
            vec![q],
            vec![Action::Result(Program { steps: vec![Step::Set { cols: cols_t.clone(), rows: (0..k).map(row).collect(), end: SetEnd::FinishError { kind, msg: msg.to_vec() } }] })],
            0,
        ),
    };
    let mut cmds = cmds;
    cmds.push(Cmd::Ping);
    let mut conv = Conversation::new(cmds, actions);
    if matches!(site, Site::QueryThenFatal | Site::FinishErrorThenFatal(_)) {
        conv.then_fail = vec![Some(77)];
    }
    (conv, idx)
}

fn find_err(r: &Response) -> Option<&ErrPkt> {
    for u in &r.units {
        match u {
            Unit::Err(e) => return Some(e),
            Unit::Set { end_err: Some(e), .. } => return Some(e),
            _ => {}
        }
    }
    None
}

fn gen_msg(g: &mut G<'_>) -> MsgSpec {
    match g.weighted(&[2, 3, 3, 2, 1, 2]) {
        0 => MsgSpec::Lit(vec![]),
        1 => MsgSpec::Lit((0..g.usize_in(1, 60)).map(|_| b' ' + g.below(95) as u8).collect()),
        2 => {
            let n = g.usize_in(1, 40);
            MsgSpec::Lit(g.bytes(n))
        }
        3 => MsgSpec::Pat { seed: g.raw(), len: g.usize_in(250, 400) },
        4 => MsgSpec::Pat { seed: g.raw(), len: *g.pick(&[65_535usize, 70_000]) },
        _ => MsgSpec::Lit(g.pick(&[&b"#"[..], b"#42000", b"\x00", b"\xff", b"a#b\x00c\xffd", b"#HY000#", b"\xff\xff\xff"]).to_vec()),
    }
}

impl Prop for C13 {
    type Case = Case;
    fn id(&self) -> &'static str {
        "C13"
    }
    fn canary(&self) -> bool {
        true
    }
    fn rule(&self) -> String {
        format!("cases = (a) sweeps: a contiguous slice of the {} ErrorKind variants (list re-read from src/errorcodes.rs at build time) x one of 17 reporting sites (query error first; after complete_one; after a finished set; finish_error after 0/3 text rows and 0/2 binary rows, and with the last row still open (write_col without end_row) in both protocols; execute error; prepare error; COM_INIT_DB error; `USE` error; query error / finish_error after which the shim returns Err from the callback - the ERR must still have been handed to the transport) x the handshake response that opened the connection (usual 4.1, pre-4.1 layout, 4.1 with a random mask over the capability bits that change no packet format) x one message (empty, ASCII, arbitrary bytes, 250-400 bytes, 65535/70000 bytes, containing '#', NUL, 0xFF); the quick tier enumerates every kind at a rotating site and every site; (b) table checks: ErrorKind::from(k as u16) == k for every variant, SQLSTATE is 5 bytes of [0-9A-Z], curated well-known (code, SQLSTATE) pairs, the (name, code) table extracted from the mysql crate, and a pinned snapshot of the whole SQLSTATE table (a change detector, stated as such). Oracle: the ERR packet decodes (own decoder + mysql_common::ErrPacket) to code = kind as u16, marker '#', state = kind.sqlstate(), identical message bytes. Non-trivial = a site other than 'query error first', or a non-ASCII/long message.", ERROR_KINDS.len())
    }
    fn exhaustive_note(&self, _tier: Tier) -> Option<String> {
        Some("all ErrorKind variants (each at >= 1 site), all 17 sites; thorough: all variants x all sites".into())
    }
    fn assumptions(&self) -> Vec<String> {
        vec!["the pinned SQLSTATE snapshot (data/sqlstate_snapshot.json) equals the table of the pinned tree; it detects swapped/changed arms but would also flag a deliberate upstream correction".into()]
    }
    fn cases(&self, tier: Tier) -> u64 {
        tier.pick(15000, 100000)
    }
    fn fuzz_plan(&self, tier: Tier) -> Vec<(&'static str, u64)> {
        if tier == Tier::Thorough {
            vec![("prop", 60000_u64)]
        } else {
            vec![]
        }
    }
    fn choice_len(&self) -> usize {
        64
    }
    fn gen(&self, g: &mut G<'_>, _tier: Tier) -> Case {
        let n = ERROR_KINDS.len();
        let from = g.below(n as u64) as usize;
        let to = (from + g.usize_in(1, 6)).min(n);
        let hs = match g.weighted(&[5, 2, 1]) {
            0 => 0,
            1 => 1,
            _ => g.raw() | 2,
        };
        Case::Sweep { from, to, site: *g.pick(&SITES), msg: gen_msg(g), hs }
    }
    fn fixed(&self, tier: Tier) -> Vec<Case> {
        let mut v = vec![Case::Tables];
        // a message that makes the ERR packet exactly one wire packet / one byte more
        v.push(Case::Sweep { from: 45, to: 46, site: Site::QueryFirst, msg: MsgSpec::Pat { seed: 5, len: MAX_PAYLOAD - 9 }, hs: 0 });
        v.push(Case::Sweep { from: 46, to: 47, site: Site::FinishErrorBin(2), msg: MsgSpec::Pat { seed: 6, len: MAX_PAYLOAD - 8 }, hs: 0 });
        let n = ERROR_KINDS.len();
        let chunk = 16;
        match tier {
            Tier::Quick => {
                // every kind once at a rotating site; every site with all kinds of one chunk
                let mut i = 0;
                let mut k = 0;
                while i < n {
                    v.push(Case::Sweep { from: i, to: (i + chunk).min(n), site: SITES[k % SITES.len()], msg: MsgSpec::Lit(format!("msg {}", k).into_bytes()), hs: (k % 3) as u32 });
                    i += chunk;
                    k += 1;
                }
            }
            Tier::Thorough => {
                for (si, site) in SITES.iter().enumerate() {
                    let mut i = 0;
                    while i < n {
                        for m in 0..3 {
                            let msg = match m {
                                0 => MsgSpec::Lit(vec![]),
                                1 => MsgSpec::Lit(b"a#b\x00c\xffd error".to_vec()),
                                _ => MsgSpec::Pat { seed: (si * 1000 + i) as u32, len: 300 },
                            };
                            v.push(Case::Sweep { from: i, to: (i + chunk).min(n), site: *site, msg, hs: m as u32 });
                        }
                        i += chunk;
                    }
                }
            }
        }
        v
    }
    fn exec(&self, case: &Case) -> Exec {
        let mut ex = Exec::default();
        match case {
            Case::Tables => {
                ex.class("tables");
                ex.nontrivial = true;
                let snapshot: std::collections::HashMap<String, (u16, String)> = load_snapshot();
                let reference: std::collections::HashMap<String, u16> = load_reference_codes();
                let mut agree_ref = 0u64;
                let mut seen_codes = std::collections::HashSet::new();
                for (name, code) in ERROR_KINDS {
                    let k = match catch(|| ErrorKind::from(*code)) {
                        Ok(k) => k,
                        Err(p) => {
                            ex.fail("c13-from-u16-panics", format!("ErrorKind::from({}) panics for defined kind {}: {}", code, name, p.msg));
                            continue;
                        }
                    };
                    if k as u16 != *code {
                        ex.fail("c13-roundtrip", format!("ErrorKind::from({}) as u16 == {} (kind {})", code, k as u16, name));
                    }
                    if format!("{:?}", k) != *name {
                        ex.fail("c13-roundtrip", format!("ErrorKind::from({}) is {:?}, but {} is the variant with that discriminant", code, k, name));
                    }
                    if !seen_codes.insert(*code) {
                        ex.fail("c13-duplicate-code", format!("code {} defined twice", code));
                    }
                    let st = k.sqlstate();
                    if !st.iter().all(|c| c.is_ascii_digit() || c.is_ascii_uppercase()) {
                        ex.fail("c13-sqlstate-shape", format!("SQLSTATE of {} is {:?}", name, String::from_utf8_lossy(st)));
                    }
                    if let Some((_, want)) = CURATED.iter().find(|(c, _)| c == code) {
                        if st != want.as_bytes() {
                            ex.fail("c13-sqlstate-curated", format!("SQLSTATE of {} ({}) is {:?}, MySQL documents {:?}", name, code, String::from_utf8_lossy(st), want));
                        }
                    }
                    if let Some((scode, sstate)) = snapshot.get(*name) {
                        if scode != code {
                            ex.fail("c13-code-changed", format!("{} has code {} (pinned table: {})", name, code, scode));
                        }
                        if st != sstate.as_bytes() {
                            ex.fail("c13-sqlstate-changed", format!("SQLSTATE of {} is {:?} (pinned table: {:?})", name, String::from_utf8_lossy(st), sstate));
                        }
                    }
                    if let Some(rcode) = reference.get(*name) {
                        if rcode == code {
                            agree_ref += 1;
                        } else {
                            ex.fail("c13-code-vs-mysql-crate", format!("{} = {} here but {} in the mysql crate's ServerError table", name, code, rcode));
                        }
                    }
                }
                for (name, (code, _)) in &snapshot {
                    if !ERROR_KINDS.iter().any(|(n, _)| n == name) {
                        ex.fail("c13-kind-removed", format!("kind {} ({}) of the pinned table no longer exists", name, code));
                    }
                }
                ex.count("kinds_checked", ERROR_KINDS.len() as u64);
                ex.count("kinds_agreeing_with_mysql_crate_table", agree_ref);
                ex.count("kinds_in_pinned_snapshot", snapshot.len() as u64);
            }
            Case::Sweep { from, to, site, msg, hs } => {
                let msg = msg.get();
                ex.class(match hs {
                    0 => "handshake:4.1-usual",
                    1 => "handshake:pre-4.1",
                    _ => "handshake:4.1-random-mask",
                });
                ex.class(format!("site:{:?}", site));
                ex.nontrivial = *site != Site::QueryFirst || msg.len() > 250 || !msg.is_ascii();
                if msg.len() > 250 {
                    ex.class("long-message");
                }
                if !msg.is_ascii() {
                    ex.class("non-ascii-message");
                }
                for (name, code) in &ERROR_KINDS[*from..*to] {
                    let (mut conv, idx) = conv_for(*site, *code, &msg);
                    match hs {
                        0 => {}
                        1 => conv.hs.kind = HsKind::V320 { caps: 0x0005, max_packet: 0xff_ffff, user: b"old".to_vec(), tail: vec![0] },
                        m => conv.hs.kind = HsKind::V41 { caps: (*m & CAP_FORMAT_NEUTRAL) | CAP_PROTOCOL_41 | CAP_SECURE_CONNECTION, max_packet: 1 << 24, charset: 0x21, user: b"verif".to_vec(), tail: vec![0] },
                    }
                    let o = run_with(&conv, None, false);
                    ex.count("error_reports_checked", 1);
                    let fatal = matches!(site, Site::QueryThenFatal | Site::FinishErrorThenFatal(_));
                    let result_ok = if fatal { matches!(o.result, RunResult::ErrTagged(77)) } else { o.result.is_ok() };
                    if !result_ok {
                        ex.fail(
                            match &o.result {
                                RunResult::Panic(p) => format!("c13-panic|{}", panic_signature(p)),
                                _ => "c13-run-result".to_string(),
                            },
                            format!("{} at {:?}: run_on returned {}", name, site, o.result.brief()),
                        );
                        return ex;
                    }
                    // (when the shim gives up after reporting, the connection ends: the ERR must be among
                    // the bytes handed to the transport; nothing after it is expected)
                    let kinds: Vec<ReplyKind> = conv.cmds.iter().take(if fatal { idx + 1 } else { conv.cmds.len() }).map(|sc| sc.cmd.reply_kind()).collect();
                    let d = decode_output(&o.out, &kinds);
                    if let Some(p) = &d.problem {
                        ex.fail("c13-nonconformant", format!("{} at {:?}: client decoder rejects the output: {}", name, site, p));
                        return ex;
                    }
                    let e = match find_err(&d.replies[idx]) {
                        Some(e) => e,
                        None => {
                            ex.fail("c13-no-err", format!("{} at {:?}: no ERR packet in the reply [{}]", name, site, d.replies[idx].units.iter().map(|u| u.brief()).collect::<Vec<_>>().join(", ")));
                            return ex;
                        }
                    };
                    let kind = ErrorKind::from(*code);
                    if e.code != *code {
                        ex.fail("c13-code", format!("{} at {:?}: ERR carries code {}, kind's code is {}", name, site, e.code, code));
                        return ex;
                    }
                    if e.state != kind.sqlstate() {
                        ex.fail("c13-sqlstate", format!("{} at {:?}: ERR carries SQLSTATE {:?}, kind's is {:?}", name, site, String::from_utf8_lossy(&e.state), String::from_utf8_lossy(kind.sqlstate())));
                        return ex;
                    }
                    if e.msg != msg {
                        ex.fail("c13-message", format!("{} at {:?}: message altered ({} bytes received, {} sent)", name, site, e.msg.len(), msg.len()));
                        return ex;
                    }
                    // second opinion: mysql_common's ErrPacket on the raw packet
                    let raw = d.msgs[d.replies[idx].first_msg..d.replies[idx].first_msg + d.replies[idx].n_msgs].iter().find(|m| m.payload.first() == Some(&0xff)).map(|m| m.payload.clone());
                    if let Some(raw) = raw {
                        let mut buf = mysql_common::io::ParseBuf(&raw[..]);
                        match ErrPacket::deserialize(mysql_common::constants::CapabilityFlags::CLIENT_PROTOCOL_41, &mut buf) {
                            Ok(ErrPacket::Error(se)) => {
                                if se.error_code() != *code || se.message_ref() != &msg[..] || &se.sql_state_ref() != kind.sqlstate() {
                                    ex.fail("c13-second-opinion", format!("{} at {:?}: mysql_common reads code {} / state {:?}", name, site, se.error_code(), se.sql_state_str()));
                                    return ex;
                                }
                            }
                            Ok(_) => {
                                ex.fail("c13-second-opinion", format!("{} at {:?}: mysql_common reads a progress report, not an error", name, site));
                                return ex;
                            }
                            Err(err) => {
                                ex.fail("c13-second-opinion", format!("{} at {:?}: mysql_common rejects the ERR packet: {}", name, site, err));
                                return ex;
                            }
                        }
                    }
                }
            }
        }
        ex
    }
}

fn load_snapshot() -> std::collections::HashMap<String, (u16, String)> {
    let s = std::fs::read_to_string(verif_dir().join("data/sqlstate_snapshot.json")).unwrap_or_else(|_| "{}".into());
    let v: serde_json::Value = serde_json::from_str(&s).unwrap_or(serde_json::Value::Null);
    let mut m = std::collections::HashMap::new();
    if let Some(o) = v.as_object() {
        for (k, e) in o {
            if let (Some(code), Some(state)) = (e.get(0).and_then(|x| x.as_u64()), e.get(1).and_then(|x| x.as_str())) {
                m.insert(k.clone(), (code as u16, state.to_string()));
            }
        }
    }
    m
}

fn load_reference_codes() -> std::collections::HashMap<String, u16> {
    let s = std::fs::read_to_string(verif_dir().join("data/mysql_crate_error_codes.json")).unwrap_or_else(|_| "{}".into());
    let v: serde_json::Value = serde_json::from_str(&s).unwrap_or(serde_json::Value::Null);
    let mut m = std::collections::HashMap::new();
    if let Some(o) = v.as_object() {
        for (k, e) in o {
            if let Some(code) = e.as_u64() {
                m.insert(k.clone(), code as u16);
            }
        }
    }
    m
}

/// `vcheck C13 dump-snapshot`: print the current (name -> [code, sqlstate]) table as JSON
pub fn dump_snapshot() {
    let mut m = serde_json::Map::new();
    for (name, code) in ERROR_KINDS {
        let k = ErrorKind::from(*code);
        m.insert(name.to_string(), serde_json::json!([code, String::from_utf8_lossy(k.sqlstate())]));
    }
    crate::out!("{}", serde_json::to_string_pretty(&serde_json::Value::Object(m)).unwrap());
}
