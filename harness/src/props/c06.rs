//! C06 — text-protocol result values arrive unchanged.

use crate::conv::*;
use crate::engine::*;
use crate::gen::G;
use crate::gens::*;
use crate::model::*;
use crate::shim::*;
use crate::vals::*;
use crate::wire::*;
use mysql_common::value::convert::from_value_opt;
use mysql_common::value::Value as MyValue;
use serde::{Deserialize, Serialize};

pub struct C06;

#[derive(Clone, Debug, Serialize, Deserialize)]
pub struct Case {
    pub sets: Vec<(Vec<ColSpec>, Vec<RowProg>)>,
    /// what the client announced in its handshake response: (max_packet_size, character set)
    #[serde(default)]
    pub announced: Option<(u32, u8)>,
    /// the shim lets the last RowWriter go out of scope instead of calling finish()
    #[serde(default)]
    pub drop_writer: bool,
}

fn type_tag(b: &Base) -> u8 {
    match b {
        Base::U8(_) => 0,
        Base::I8(_) => 1,
        Base::U16(_) => 2,
        Base::I16(_) => 3,
        Base::U32(_) => 4,
        Base::I32(_) => 5,
        Base::U64(_) => 6,
        Base::I64(_) => 7,
        Base::Usize(_) => 8,
        Base::Isize(_) => 9,
        Base::F32(_) => 10,
        Base::F64(_) => 11,
        Base::Str(_) | Base::StrRef(_) | Base::BigStr { .. } => 12,
        Base::Vec(_) | Base::Slice(_) | Base::BigBytes { .. } => 13,
        Base::Date(..) => 14,
        Base::DateTime(..) => 15,
        Base::Dur(..) => 16,
        Base::My(_) => 17,
        Base::FlushThenI32(_) => 5,
    }
}

/// second opinion: what the `mysql` crate's value layer makes of a text cell
fn second_opinion(cell: &Option<Vec<u8>>, written: &Val) -> Result<(), String> {
    let want = sem_of_val(written);
    let v = match cell {
        None => MyValue::NULL,
        Some(b) => MyValue::Bytes(b.clone()),
    };
    match (&want, &v) {
        (Sem::Null, MyValue::NULL) => return Ok(()),
        (Sem::Null, _) => return Err("mysql_common sees a non-NULL value where NULL was written".into()),
        (_, MyValue::NULL) => return Err("mysql_common sees NULL where a value was written".into()),
        _ => {}
    }
    match &want {
        Sem::Int(i) => {
            if *i < 0 {
                let got: i64 = from_value_opt(v).map_err(|e| format!("mysql_common cannot read the cell as i64: {}", e))?;
                if got as i128 != *i {
                    return Err(format!("mysql_common reads {} but {} was written", got, i));
                }
            } else {
                let got: u64 = from_value_opt(v).map_err(|e| format!("mysql_common cannot read the cell as u64: {}", e))?;
                if got as i128 != *i {
                    return Err(format!("mysql_common reads {} but {} was written", got, i));
                }
            }
        }
        Sem::Float(bits) => {
            if is_f32(&written.base) {
                let got: f32 = from_value_opt(v).map_err(|e| format!("mysql_common cannot read the cell as f32: {}", e))?;
                if (got as f64).to_bits() != *bits {
                    return Err(format!("mysql_common reads f32 {:e} but {:e} was written", got, f64::from_bits(*bits)));
                }
            } else {
                let got: f64 = from_value_opt(v).map_err(|e| format!("mysql_common cannot read the cell as f64: {}", e))?;
                if got.to_bits() != *bits {
                    return Err(format!("mysql_common reads f64 {:e} but {:e} was written", got, f64::from_bits(*bits)));
                }
            }
        }
        Sem::Bytes(b) => {
            let got: Vec<u8> = from_value_opt(v).map_err(|e| format!("mysql_common cannot read the cell as bytes: {}", e))?;
            if &got != b {
                return Err("mysql_common reads different bytes".into());
            }
        }
        Sem::Date(y, m, d) => {
            // chrono's NaiveDate parser in mysql_common
            let got: chrono::NaiveDate = from_value_opt(v).map_err(|e| format!("mysql_common cannot read the cell as a date: {}", e))?;
            use chrono::Datelike;
            if (got.year(), got.month(), got.day()) != (*y, *m, *d) {
                return Err(format!("mysql_common reads date {} but {}-{}-{} was written", got, y, m, d));
            }
        }
        Sem::DateTime(y, m, d, h, mi, s, us) => {
            let got: chrono::NaiveDateTime = from_value_opt(v).map_err(|e| format!("mysql_common cannot read the cell as a datetime: {}", e))?;
            use chrono::{Datelike, Timelike};
            if (got.year(), got.month(), got.day(), got.hour(), got.minute(), got.second(), got.nanosecond() / 1000) != (*y, *m, *d, *h, *mi, *s, *us) {
                return Err(format!("mysql_common reads datetime {} but {:?} was written", got, want));
            }
        }
        Sem::Time(us) => {
            // MySQL's own TIME range ends at 838:59:59; the mysql crate refuses more
            if *us <= (838u128 * 3600 + 59 * 60 + 59) * 1_000_000 + 999_999 {
                let got: std::time::Duration = from_value_opt(v).map_err(|e| format!("mysql_common cannot read the cell as a duration: {}", e))?;
                if got.as_micros() != *us {
                    return Err(format!("mysql_common reads duration {:?} but {} us were written", got, us));
                }
            }
        }
        _ => {}
    }
    Ok(())
}

impl Prop for C06 {
    type Case = Case;
    fn id(&self) -> &'static str {
        "C06"
    }
    fn canary(&self) -> bool {
        true
    }
    fn rule(&self) -> String {
        "cases = 1-2 text resultsets of 1-12 columns x 0-20 rows answered to a COM_QUERY; every cell drawn from all ToMysqlValue implementors (u8..i64, usize, isize boundary-biased over full ranges; all finite f32/f64 bit patterns incl. subnormals and -0; String/&str/Vec<u8>/&[u8] with lengths over 0-250, 251-65535, >=65536 and contents incl. 0xFB, 0xFF, \"NULL\", \"\"; NaiveDate years 0-9999; NaiveDateTime and Duration with/without microseconds; mysql_common::Value of every variant), passed by value, by reference, in Option (Some/None), via write_col, write_row(values) and write_row(&values); one case in 2500 is a row of 17-70 MB whose 2-6 cells (byte strings around 1x, 2x, 3x the 2^24-1-byte packet size or filling up to +-12 bytes of a packet boundary; integers, short strings and NULLs before, between and after them) are laid out against the packet boundaries of the row message. The client's handshake response announces a generated max_packet_size (0, 1 KiB ... 1 GiB, random) and character set (latin1, utf8, utf8mb4, binary, random), which must not matter. Oracle: round trip through the reference text-row decoder and the canonical text grammar of the intended type (floats bit-for-bit), NULL vs \"\" vs \"NULL\" kept apart; second opinion from mysql_common's from_value. Non-trivial = a row with >= 2 different Rust types, or a string >= 251 bytes, or a temporal value with microseconds.".into()
    }
    fn assumptions(&self) -> Vec<String> {
        vec![
            "domain restrictions from MySQL's own types: whole microseconds, no leap seconds, non-negative durations, finite floats".into(),
            "mysql_common second opinion on durations only within MySQL's TIME range (<= 838:59:59)".into(),
        ]
    }
    fn cases(&self, tier: Tier) -> u64 {
        tier.pick(300000, 3000000)
    }
    fn fuzz_plan(&self, tier: Tier) -> Vec<(&'static str, u64)> {
        if tier == Tier::Thorough {
            vec![("prop", 100000_u64)]
        } else {
            vec![]
        }
    }
    fn choice_len(&self) -> usize {
        6000
    }
    fn gen(&self, g: &mut G<'_>, _tier: Tier) -> Case {
        if g.chance(1, 2500) && !g.fuzzing {
            // a row longer than a wire packet, cell boundaries placed against the packet boundaries
            let (cols, big) = gen_big_layout_row(g, false);
            let mut rows = Vec::new();
            let small = |g: &mut G<'_>| RowProg { cells: cols.iter().map(|_| Val::plain(Base::I32(g.below(1000) as i32))).collect(), form: RowForm::WriteRow, offers: vec![] };
            if g.coin() {
                rows.push(small(g));
            }
            rows.push(big);
            if g.coin() {
                rows.push(small(g));
            }
            return Case { sets: vec![(cols, rows)], announced: Some(gen_client_announcements(g)), drop_writer: false };
        }
        let nsets = if g.chance(1, 5) { 2 } else { 1 };
        let mut sets = Vec::new();
        let huge_case = g.chance(1, 40);
        for _ in 0..nsets {
            let ncols = match g.weighted(&[3, 5, 2]) {
                0 => 1,
                1 => g.usize_in(2, 5),
                _ => g.usize_in(6, 12),
            };
            let cols: Vec<ColSpec> = (0..ncols).map(|i| ColSpec { table: "t".into(), name: format!("c{}", i), coltype: *g.pick(&VALUE_COLTYPES), flags: 0 }).collect();
            let nrows = match g.weighted(&[1, 5, 3]) {
                0 => 0,
                1 => g.usize_in(1, 3),
                _ => g.usize_in(4, 20),
            };
            let rows: Vec<RowProg> = (0..nrows)
                .map(|ri| {
                    let cells = (0..ncols).map(|_| gen_text_val(g, huge_case)).collect();
                    let form = match g.weighted(&[3, 2, 3, if ri + 1 == nrows { 1 } else { 0 }]) {
                        0 => RowForm::WriteRow,
                        1 => RowForm::WriteRowRef,
                        2 => RowForm::Cols,
                        _ => RowForm::ColsOpen,
                    };
                    RowProg { cells, form, offers: vec![] }
                })
                .collect();
            let mut rows = rows;
            repeat_rows(g, &mut rows);
            sets.push((cols, rows));
        }
        Case { sets, announced: if g.coin() { Some(gen_client_announcements(g)) } else { None }, drop_writer: g.chance(1, 5) }
    }
    fn exec(&self, case: &Case) -> Exec {
        let mut ex = Exec::default();
        let n = case.sets.len();
        let steps: Vec<Step> = case
            .sets
            .iter()
            .enumerate()
            .map(|(i, (cols, rows))| Step::Set { cols: cols.clone(), rows: rows.clone(), end: if i + 1 == n { if case.drop_writer { SetEnd::DropRowWriter } else { SetEnd::Finish } } else { SetEnd::FinishOne } })
            .collect();
        let mut conv = Conversation::new(vec![Cmd::Query { text: Blob::text("SELECT x") }, Cmd::Ping], vec![Action::Result(Program { steps })]);
        if let (Some((mp, cs)), HsKind::V41 { max_packet, charset, .. }) = (case.announced, &mut conv.hs.kind) {
            *max_packet = mp;
            *charset = cs;
            if mp >= 1024 && mp < MAX_PAYLOAD as u32 {
                ex.class("client-announced-max_packet_size<2^24-1");
            }
        }
        // classification
        if case.drop_writer {
            ex.class("row-writer-dropped-instead-of-finish");
        }
        let mut cells = 0u64;
        for (_, rows) in &case.sets {
            for r in rows {
                if r.cells.iter().any(|c| matches!(c.base, Base::BigBytes { .. })) {
                    ex.class("row-longer-than-a-wire-packet");
                    for c in classify_big_layout(r) {
                        ex.class(c);
                    }
                }
                let mut tags: Vec<u8> = r.cells.iter().map(|c| type_tag(&c.base)).collect();
                tags.sort();
                tags.dedup();
                if tags.len() >= 2 {
                    ex.nontrivial = true;
                }
                for c in &r.cells {
                    cells += 1;
                    match sem_of_val(c) {
                        Sem::Bytes(b) if b.len() >= 251 => {
                            ex.nontrivial = true;
                            ex.class(if b.len() >= 65_536 { "string>=65536" } else { "string 251..65535" });
                        }
                        Sem::DateTime(.., us) if us != 0 => {
                            ex.nontrivial = true;
                            ex.class("datetime-with-micros");
                        }
                        Sem::Time(us) if us % 1_000_000 != 0 => {
                            ex.nontrivial = true;
                            ex.class("duration-with-micros");
                        }
                        Sem::Null => ex.class("null-cell"),
                        Sem::Float(_) => ex.class("float-cell"),
                        Sem::Date(..) => ex.class("date-cell"),
                        _ => {}
                    }
                }
            }
        }
        ex.count("cells_checked", cells);
        // first, on this very thread, some of the values are written to a writer that breaks after
        // 0-2 bytes (a connection that died in mid-cell): nothing of that may show in what follows
        for (k, c) in case.sets.iter().flat_map(|(_, rows)| rows.iter()).flat_map(|r| r.cells.iter()).filter(|c| !matches!(c.base, Base::BigBytes { .. } | Base::BigStr { .. })).take(6).enumerate() {
            let _ = catch(|| dispatch(c, &mut FailingTextSink(k % 3)));
        }
        let o = run_with(&conv, None, false);
        if let RunResult::Panic(p) = &o.result {
            ex.fail(format!("c06-panic|{}", panic_signature(p)), format!("run_on panicked: {}", o.result.brief()));
            return ex;
        }
        if !o.result.is_ok() {
            ex.fail("c06-run-result", format!("run_on returned {} (failing writer call: {:?})", o.result.brief(), o.calls.iter().find(|k| !k.ok).map(|k| (k.name, k.row))));
            return ex;
        }
        let kinds: Vec<ReplyKind> = conv.cmds.iter().map(|sc| sc.cmd.reply_kind()).collect();
        let d = decode_output(&o.out, &kinds);
        if let Some(p) = &d.problem {
            ex.fail("c06-nonconformant", format!("client decoder rejects the output: {}", p));
            return ex;
        }
        let exps = expectations(&conv);
        if let Err(m) = check_reply(&exps[0], &d.replies[0], true) {
            ex.fail("c06-value-differs", m.chars().take(600).collect::<String>());
            return ex;
        }
        // second opinion
        for (u, (_, rows)) in d.replies[0].units.iter().zip(&case.sets) {
            if let Unit::Set { rows: Rows::Text(got), .. } = u {
                for (grow, wrow) in got.iter().zip(rows) {
                    for (gc, wc) in grow.iter().zip(&wrow.cells) {
                        if let Err(m) = second_opinion(gc, wc) {
                            ex.fail("c06-second-opinion", format!("{} (written {:?}, cell {:?})", m, wc, gc.as_ref().map(|b| String::from_utf8_lossy(&b[..b.len().min(40)]).to_string())));
                            return ex;
                        }
                    }
                }
            }
        }
        ex
    }
}
