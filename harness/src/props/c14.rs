//! C14 — completion counts arrive exactly, including for zero-column resultsets.

use crate::conv::*;
use crate::engine::*;
use crate::gen::G;
use crate::model::*;
use crate::shim::*;
use crate::vals::*;
use crate::wire::*;
use mysql_common::packets::{CommonOkPacket, OkPacketDeserializer};
use mysql_common::proto::MyDeserialize;
use serde::{Deserialize, Serialize};

pub struct C14;

pub const B: [u64; 16] = [0, 1, 250, 251, 252, 65_535, 65_536, (1 << 24) - 1, 1 << 24, (1 << 32) - 1, 1 << 32, 1 << 63, u64::MAX - 1, u64::MAX, 253, 254];

#[derive(Clone, Debug, Serialize, Deserialize)]
pub enum Unit14 {
    /// complete_one / completed
    Count { rows: u64, id: u64 },
    /// zero-column resultset with rows ended by the given forms
    ZeroCols { forms: Vec<RowForm>, n_extra_write_row: usize },
    /// zero-column resultset on which `end_row()` is called `n` times in a loop
    ZeroColsBulk { n: u64 },
    /// an ordinary resultset (`ncols` >= 1 LONG columns, `nrows` rows) between the completions: its
    /// rows are not anybody's affected-rows count
    ColSet { ncols: usize, nrows: usize },
}

#[derive(Clone, Debug, Serialize, Deserialize)]
pub struct Case {
    pub units: Vec<Unit14>,
    pub bin: bool,
    /// last unit via `completed` / `finish` (true) or `complete_one`/`finish_one` + no_more_results (false)
    pub direct_terminal: bool,
    /// the statement fails after the units were reported: every unit is announced with
    /// complete_one / finish_one and the chain ends in `error(kind, msg)`; all the counts reported
    /// before it still have to arrive, followed by the ERR
    #[serde(default)]
    pub error_end: Option<(u16, Vec<u8>)>,
}

fn program(case: &Case) -> Program {
    if let Some((kind, msg)) = &case.error_end {
        let mut inner = case.clone();
        inner.error_end = None;
        inner.direct_terminal = false;
        let mut p = program(&inner);
        p.steps.pop();
        p.steps.push(Step::Error { kind: *kind, msg: msg.clone() });
        return p;
    }
    let n = case.units.len();
    let mut steps = Vec::new();
    for (i, u) in case.units.iter().enumerate() {
        let last = i + 1 == n;
        match u {
            Unit14::Count { rows, id } => {
                if last && case.direct_terminal {
                    steps.push(Step::Completed { rows: *rows, id: *id })
                } else {
                    steps.push(Step::CompleteOne { rows: *rows, id: *id })
                }
            }
            Unit14::ZeroCols { forms, n_extra_write_row } => {
                let mut rows: Vec<RowProg> = forms
                    .iter()
                    .map(|f| RowProg { cells: if *f == RowForm::Cols { vec![Val::plain(Base::I8(1))] } else { vec![] }, form: *f, offers: vec![] })
                    .collect();
                for _ in 0..*n_extra_write_row {
                    rows.push(RowProg { cells: vec![], form: RowForm::WriteRow, offers: vec![] });
                }
                steps.push(Step::Set { cols: vec![], rows, end: if last && case.direct_terminal { SetEnd::Finish } else { SetEnd::FinishOne } })
            }
            Unit14::ColSet { ncols, nrows } => {
                let cols: Vec<ColSpec> = (0..*ncols).map(|c| ColSpec::simple(&format!("c{}", c), T_LONG, 0)).collect();
                let rows: Vec<RowProg> = (0..*nrows)
                    .map(|r| RowProg { cells: (0..*ncols).map(|c| Val::plain(Base::I32((r * 3 + c) as i32))).collect(), form: if r % 2 == 0 { RowForm::WriteRow } else { RowForm::Cols }, offers: vec![] })
                    .collect();
                steps.push(Step::Set { cols, rows, end: if last && case.direct_terminal { SetEnd::Finish } else { SetEnd::FinishOne } })
            }
            Unit14::ZeroColsBulk { n } => {
                let rows = vec![RowProg { cells: vec![], form: RowForm::EndRowTimes(*n), offers: vec![] }, RowProg { cells: vec![], form: RowForm::WriteRow, offers: vec![] }];
                steps.push(Step::Set { cols: vec![], rows, end: if last && case.direct_terminal { SetEnd::Finish } else { SetEnd::FinishOne } })
            }
        }
    }
    if !case.direct_terminal {
        steps.push(Step::NoMoreResults);
    }
    Program { steps }
}

impl Prop for C14 {
    type Case = Case;
    fn id(&self) -> &'static str {
        "C14"
    }
    fn canary(&self) -> bool {
        true
    }
    fn rule(&self) -> String {
        "cases = chains of 1-4 completion units answered to COM_QUERY (text) or COM_STMT_EXECUTE (binary): (rows, last_insert_id) pairs from B x B with B = {0, 1, 250..254, 65535, 65536, 2^24-1, 2^24, 2^32-1, 2^32, 2^63, 2^64-2, 2^64-1} (enumerated) and random u64 pairs, via completed or complete_one chains (enumerated: chains of 255, 256, 257 units); zero-column resultsets with n in {0, 1, 2, 250, 251, 300, 70000} rows ended by end_row / write_row mixes, and with n+1 rows for n in {65535, 65536, 2^24-1, 2^24, 2^32-2, 2^32+4 (thorough: also 2^31-1, 2^31, 2^32-1, 2^33+1)} ended by end_row() in a loop; 1 chain in ~3 of length >= 2 also contains an ordinary resultset (1-3 columns, 0-300 rows) before or after the completions and zero-column sets (rows ended there are nobody's affected-rows). Oracle: the decoded OK (own decoder + mysql_common's OkPacket parser) carries exactly those two numbers; a zero-column set's OK carries affected-rows = number of rows the program ended. Non-trivial = a value >= 251 (beyond the 1-byte length encoding), a chain of >= 2, or a zero-column set with rows.".into()
    }
    fn exhaustive_note(&self, _tier: Tier) -> Option<String> {
        Some("B x B for single completions in text and binary mode".into())
    }
    fn cases(&self, tier: Tier) -> u64 {
        tier.pick(100000, 1000000)
    }
    fn fuzz_plan(&self, tier: Tier) -> Vec<(&'static str, u64)> {
        if tier == Tier::Thorough {
            vec![("prop", 100000_u64)]
        } else {
            vec![]
        }
    }
    fn choice_len(&self) -> usize {
        128
    }
    fn gen(&self, g: &mut G<'_>, _tier: Tier) -> Case {
        let n = match g.weighted(&[5, 3, 2]) {
            0 => 1,
            1 => 2,
            _ => g.usize_in(3, 4),
        };
        let units = (0..n)
            .map(|_| {
                if n >= 2 && g.chance(1, 5) {
                    // an ordinary resultset in the chain: the rows it ends belong to no completion
                    Unit14::ColSet { ncols: g.usize_in(1, 3), nrows: *g.pick(&[0usize, 1, 2, 3, 5, 250, 251, 300]) }
                } else if g.chance(1, 3) {
                    let k = match g.weighted(&[3, 3, 2, 1]) {
                        0 => g.usize_in(0, 3),
                        1 => *g.pick(&[250usize, 251, 252, 300]),
                        2 => g.usize_in(0, 400),
                        _ => 70_000,
                    };
                    let forms = (0..k.min(500)).map(|_| *g.pick(&[RowForm::WriteRow, RowForm::Cols, RowForm::WriteRowRef])).collect();
                    Unit14::ZeroCols { forms, n_extra_write_row: k.saturating_sub(500) }
                } else {
                    Unit14::Count { rows: g.u64_biased(), id: g.u64_biased() }
                }
            })
            .collect();
        let mut units: Vec<Unit14> = units;
        if units.len() >= 2 && g.chance(1, 6) {
            // the same completion twice in a row (a client must still see two)
            let i = g.usize_in(1, units.len() - 1);
            units[i] = units[i - 1].clone();
        }
        let error_end = if g.chance(1, 6) { Some((crate::gens::gen_error_kind(g), crate::gens::gen_error_msg(g))) } else { None };
        Case { units, bin: g.coin(), direct_terminal: g.coin(), error_end }
    }
    fn fixed(&self, tier: Tier) -> Vec<Case> {
        let mut v = Vec::new();
        for &r in &B {
            for &i in &B {
                for bin in [false, true] {
                    if tier == Tier::Quick && bin && (r % 3 == 1) {
                        continue;
                    }
                    v.push(Case { units: vec![Unit14::Count { rows: r, id: i }], bin, direct_terminal: (r ^ i) & 1 == 0, error_end: None });
                }
            }
        }
        for &k in &[0usize, 1, 2, 250, 251, 300, 70_000] {
            for bin in [false, true] {
                v.push(Case { units: vec![Unit14::ZeroCols { forms: vec![RowForm::Cols; k.min(3)], n_extra_write_row: k.saturating_sub(3) }], bin, direct_terminal: true, error_end: None });
                v.push(Case {
                    units: vec![Unit14::Count { rows: 7, id: 8 }, Unit14::ZeroCols { forms: vec![RowForm::WriteRow; k.min(2)], n_extra_write_row: k.saturating_sub(2) }, Unit14::ZeroCols { forms: vec![], n_extra_write_row: 1 }],
                    bin,
                    direct_terminal: false,
                error_end: None,
                });
            }
        }
        // an ordinary resultset with rows, then a zero-column set / a completion (and the reverse)
        for bin in [false, true] {
            for &(r, k) in &[(3usize, 2usize), (1, 0), (0, 2), (300, 1)] {
                v.push(Case { units: vec![Unit14::ColSet { ncols: 2, nrows: r }, Unit14::ZeroCols { forms: vec![RowForm::WriteRow; k], n_extra_write_row: 0 }], bin, direct_terminal: true, error_end: None });
                v.push(Case { units: vec![Unit14::ZeroCols { forms: vec![RowForm::Cols; k], n_extra_write_row: 0 }, Unit14::ColSet { ncols: 1, nrows: r }, Unit14::Count { rows: 5, id: 6 }, Unit14::ZeroCols { forms: vec![], n_extra_write_row: k }], bin, direct_terminal: false, error_end: None });
            }
        }
        // chains whose packet count crosses 2^8: every completion of a chain of 255-257 (thorough:
        // also 511-513) units must still arrive with its own numbers, and the next command's OK too
        let chains: &[usize] = match tier {
            Tier::Quick => &[255, 256, 257],
            Tier::Thorough => &[255, 256, 257, 511, 512, 513, 1024],
        };
        for &n in chains {
            for bin in [false, true] {
                let units: Vec<Unit14> = (0..n).map(|k| if k % 5 == 4 { Unit14::ZeroCols { forms: vec![RowForm::WriteRow; k % 3], n_extra_write_row: 0 } } else { Unit14::Count { rows: B[k % B.len()], id: (k as u64) * 7 } }).collect();
                v.push(Case { units, bin, direct_terminal: n % 2 == 0, error_end: None });
            }
        }
        // "for all numbers of rows written to a zero-column resultset": the counts at which 16-,
        // 24- and 32-bit counters wrap (ending such a row sends nothing, so billions are cheap)
        let bulk: &[u64] = match tier {
            Tier::Quick => &[65_535, 65_536, (1 << 24) - 1, 1 << 24, (1 << 32) - 2, (1 << 32) + 4],
            Tier::Thorough => &[65_535, 65_536, (1 << 24) - 1, 1 << 24, (1 << 31) - 1, 1 << 31, (1 << 32) - 2, (1 << 32) - 1, (1 << 32) + 4, (1 << 33) + 1],
        };
        for (i, &n) in bulk.iter().enumerate() {
            v.push(Case { units: vec![Unit14::ZeroColsBulk { n }], bin: i % 2 == 0, direct_terminal: i % 3 != 0, error_end: None });
        }
        v
    }
    fn exec(&self, case: &Case) -> Exec {
        let mut ex = Exec::default();
        let prog = program(case);
        let big = case.units.iter().any(|u| match u {
            Unit14::Count { rows, id } => *rows >= 251 || *id >= 251,
            Unit14::ZeroCols { forms, n_extra_write_row } => forms.len() + n_extra_write_row > 0,
            Unit14::ZeroColsBulk { .. } => true,
            Unit14::ColSet { .. } => false,
        });
        let has_colset = case.units.iter().any(|u| matches!(u, Unit14::ColSet { .. }));
        if has_colset {
            ex.class("chain-with-an-ordinary-resultset");
            if case.units.windows(2).any(|w| matches!(w[0], Unit14::ColSet { nrows, .. } if nrows > 0) && matches!(w[1], Unit14::ZeroCols { .. } | Unit14::ZeroColsBulk { .. })) {
                ex.class("zero-column-set-right-after-a-resultset-with-rows");
            }
        }
        if let Some(n) = case.units.iter().filter_map(|u| if let Unit14::ZeroColsBulk { n } = u { Some(*n) } else { None }).max() {
            ex.class(if n >= 1 << 32 { "zero-column-set-with->=2^32-rows" } else if n >= 1 << 24 { "zero-column-set-with->=2^24-rows" } else { "zero-column-set-bulk" });
        }
        ex.nontrivial = big || case.units.len() >= 2;
        if case.units.iter().any(|u| matches!(u, Unit14::ZeroCols { .. } | Unit14::ZeroColsBulk { .. })) {
            ex.class("zero-column-set");
        }
        if case.units.len() >= 2 {
            ex.class("chain");
        }
        ex.class(if case.bin { "binary" } else { "text" });
        if case.error_end.is_some() {
            ex.class("chain-ends-in-error()");
        }
        let (conv, idx) = if case.bin {
            (
                Conversation::new(
                    vec![Cmd::Prepare { text: Blob::text("p") }, Cmd::Execute { id: 2, params: vec![], send_types: false, flags: 0, iterations: 1 }, Cmd::Ping],
                    vec![Action::Prepare(PrepProg::Reply { id: 2, params: vec![], cols: vec![] }), Action::Result(prog)],
                ),
                1,
            )
        } else {
            (Conversation::new(vec![Cmd::Query { text: Blob::text("q") }, Cmd::Ping], vec![Action::Result(prog)]), 0)
        };
        let o = run_with(&conv, None, false);
        if let RunResult::Panic(p) = &o.result {
            ex.fail(format!("c14-panic|{}", panic_signature(p)), format!("run_on panicked: {}", o.result.brief()));
            return ex;
        }
        if !o.result.is_ok() {
            ex.fail("c14-run-result", format!("run_on returned {}", o.result.brief()));
            return ex;
        }
        let kinds: Vec<ReplyKind> = conv.cmds.iter().map(|sc| sc.cmd.reply_kind()).collect();
        let d = decode_output(&o.out, &kinds);
        if let Some(p) = &d.problem {
            ex.fail("c14-nonconformant", format!("client decoder rejects the output: {}", p));
            return ex;
        }
        let exps = expectations(&conv);
        if let Err(m) = check_reply(&exps[idx], &d.replies[idx], true) {
            ex.fail("c14-count-differs", m);
            return ex;
        }
        // the sentinel PING behind the command must get its own OK: a completion packet too many or
        // too few shifts it
        if d.stray_msgs != 0 || d.trailing_bytes != 0 {
            ex.fail("c14-count-differs", format!("{} stray packets behind the completions: the next command's reply is not the one meant for it", d.stray_msgs));
            return ex;
        }
        if case.units.len() >= 255 {
            ex.class("chain>=255-units");
        }
        // second opinion on every OK packet of the reply
        let r = &d.replies[idx];
        // (row packets of an ordinary resultset may begin with 0x00 too: no second opinion there)
        if has_colset {
            return ex;
        }
        if let Expect::Units(want) = &exps[idx] {
            let oks: Vec<&Vec<u8>> = d.msgs[r.first_msg..r.first_msg + r.n_msgs].iter().map(|m| &m.payload).filter(|p| p.first() == Some(&0)).collect();
            for (p, w) in oks.iter().zip(want) {
                if let XUnit::Ok { rows, id } = w {
                    let mut buf = mysql_common::io::ParseBuf(&p[..]);
                    let caps = mysql_common::constants::CapabilityFlags::CLIENT_PROTOCOL_41 | mysql_common::constants::CapabilityFlags::CLIENT_TRANSACTIONS;
                    match OkPacketDeserializer::<CommonOkPacket>::deserialize(caps, &mut buf) {
                        Ok(okd) => {
                            let ok: mysql_common::packets::OkPacket<'_> = okd.into_inner();
                            if ok.affected_rows() != *rows || ok.last_insert_id().unwrap_or(0) != *id {
                                ex.fail("c14-second-opinion", format!("mysql_common reads ({}, {:?}) from the OK packet, shim reported ({}, {})", ok.affected_rows(), ok.last_insert_id(), rows, id));
                                return ex;
                            }
                        }
                        Err(e) => {
                            ex.fail("c14-second-opinion", format!("mysql_common rejects the OK packet {}: {}", hex(p), e));
                            return ex;
                        }
                    }
                }
            }
        }
        ex
    }
}
