//! C08 — prepared-statement parameters are decoded to exactly what the client bound.

use crate::conv::*;
use crate::engine::*;
use crate::gen::G;
use crate::props::stmt::*;
use crate::shim::*;
use crate::vals::*;
use crate::wire::*;
use serde::{Deserialize, Serialize};

pub struct C08;

#[derive(Clone, Debug, Serialize, Deserialize)]
pub struct Case {
    pub id: u32,
    /// executions of the one statement, each binding types afresh
    pub execs: Vec<Vec<Param>>,
    /// before execution k: the shim is asked to PREPARE again and hands out the same id and
    /// parameter count (a statement cache) - optionally after the client streamed long data for a
    /// parameter that it then never executed, optionally with a COM_STMT_CLOSE first.  What the
    /// client binds inline afterwards must still arrive exactly.
    #[serde(default)]
    pub pre: Vec<Option<Pre>>,
    /// per execution: one parameter whose value is streamed with COM_STMT_SEND_LONG_DATA in the
    /// given chunks (possibly all empty) instead of being sent inline; the other parameters of that
    /// execution must still arrive exactly
    #[serde(default)]
    pub streamed: Vec<Option<(u16, Vec<Vec<u8>>)>>,
    /// other statements the shim prepares after this one, under other ids and with other parameter
    /// counts `(id, parameters)`; they are never executed and must not matter
    #[serde(default)]
    pub others: Vec<(u32, u16)>,
}

#[derive(Clone, Debug, Serialize, Deserialize)]
pub struct Pre {
    pub abandoned_long_data: Option<(u16, Vec<u8>)>,
    pub close_first: bool,
}

impl Prop for C08 {
    type Case = Case;
    fn id(&self) -> &'static str {
        "C08"
    }
    fn canary(&self) -> bool {
        true
    }
    fn rule(&self) -> String {
        "cases = one prepared statement declaring 0-600 parameters (counts biased to 0, 1, 7, 8, 9, 15-17, 63-65, 255-257, 600) executed 1-3 times with the new-params-bound flag set (later executions either bind fresh types or keep the type codes and flip some signedness flags); per parameter a bound type from every code the protocol defines a binary encoding for (27 codes) x unsigned flag; integer bit patterns over full widths, all float bit patterns incl. infinities, byte strings across the length-encoding classes, every legal length form of DATE (0/4), DATETIME/TIMESTAMP (0/4/7/11) and TIME (0/8/12, incl. negative), MYSQL_TYPE_NULL, arbitrary NULL-bitmap patterns. One case in five has the shim answer a further PREPARE with the same id and parameter count before some executions (after a COM_STMT_CLOSE or with the id still open, and possibly after long data that the client streamed but never executed): the inline values bound afterwards must arrive all the same. One case in five streams one parameter of an execution as long data (1-3 chunks of 0-6 bytes, possibly all empty, one chunk in six of 300 bytes - 70 KB), which must not disturb the inline values of the others. The statement id is the shim's choice (1 mostly; else random, 0, 2^31, 0xFFFFFFFE, 0xFFFFFFFF), and one case in four has the shim prepare 1-3 further statements under other ids and parameter counts after it, which are never executed. Oracle: the shim's list has the declared length and per entry the bound type code, the exact ValueInner, and - where the Rust target type can represent the value (not the zero date, not negative TIME, not NaN) - the conversion result equals the encoded value. Non-trivial = >= 9 parameters (second bitmap byte) or an unsigned / narrow / temporal type.".into()
    }
    fn assumptions(&self) -> Vec<String> {
        vec!["the recording shim iterates all parameters, as every caller in the repository does".into()]
    }
    fn cases(&self, tier: Tier) -> u64 {
        tier.pick(300000, 3000000)
    }
    fn fuzz_plan(&self, tier: Tier) -> Vec<(&'static str, u64)> {
        if tier == Tier::Thorough {
            vec![("prop", 150_000)]
        } else {
            vec![]
        }
    }
    fn choice_len(&self) -> usize {
        8000
    }
    fn gen(&self, g: &mut G<'_>, _tier: Tier) -> Case {
        let n = gen_nparams(g);
        let nexec = if n > 100 { 1 } else { g.usize_in(1, 3) };
        let mut execs: Vec<Vec<Param>> = Vec::new();
        for k in 0..nexec {
            if k > 0 && g.chance(1, 6) {
                // exactly the same execution once more
                let prev = execs[k - 1].clone();
                execs.push(prev);
            } else if k > 0 && g.chance(1, 2) {
                // re-execution that keeps most of the previous binding: same type codes, some
                // signedness flags flipped, fresh values (what a client does when only the values
                // or the signedness of a bound variable change)
                let prev = execs[k - 1].clone();
                let e = prev
                    .iter()
                    .map(|p| {
                        let unsigned = if g.chance(1, 3) { !p.unsigned } else { p.unsigned };
                        gen_param_of(g, p.coltype, unsigned, true)
                    })
                    .collect();
                execs.push(e);
            } else {
                execs.push((0..n).map(|_| gen_param(g)).collect());
            }
        }
        let pre = if n > 0 && n <= 100 && g.chance(1, 5) {
            (0..nexec)
                .map(|_| {
                    if g.coin() {
                        let ld = if g.chance(2, 3) { Some((g.below(n as u64) as u16, g.bytes(5))) } else { None };
                        Some(Pre { abandoned_long_data: ld, close_first: g.chance(1, 4) })
                    } else {
                        None
                    }
                })
                .collect()
        } else {
            vec![]
        };
        let streamed = if n > 0 && n <= 100 && g.chance(1, 5) {
            (0..nexec)
                .map(|_| {
                    if g.coin() {
                        let chunks = (0..g.usize_in(1, 3)).map(|_| if g.chance(1, 3) {
                            vec![]
                        } else if g.chance(1, 4) {
                            // chunks large enough that a buffer kept for them is worth keeping
                            // (the next execution binds the same parameter inline)
                            let len = *g.pick(&[300usize, 4_095, 4_096, 4_097, 5_000, 9_000, 70_000]) + g.usize_in(0, 3);
                            crate::gen::pattern(g.raw(), len)
                        } else {
                            let k = g.usize_in(0, 6);
                            g.bytes(k)
                        }).collect();
                        Some((g.below(n as u64) as u16, chunks))
                    } else {
                        None
                    }
                })
                .collect()
        } else {
            vec![]
        };
        // statement ids are the shim's choice: every u32 is legal, also the ones some protocol
        // dialect gives a special meaning (0, -1 = "the statement prepared last")
        let r0 = g.raw();
        let id = if g.chance(1, 4) { *g.pick(&[r0, u32::MAX, 0, u32::MAX - 1, 1 << 31]) } else { 1 };
        let mut others = Vec::new();
        if g.chance(1, 4) {
            for _ in 0..g.usize_in(1, 3) {
                let r1 = g.raw();
                let oid = *g.pick(&[2u32, 7, 0, u32::MAX, r1]);
                if oid != id && !others.iter().any(|(o, _)| *o == oid) {
                    others.push((oid, g.below(4) as u16));
                }
            }
        }
        Case { id, execs, pre, streamed, others }
    }
    fn fixed(&self, tier: Tier) -> Vec<Case> {
        // an inline byte-string parameter that makes the COM_STMT_EXECUTE a multi-fragment request,
        // with other parameters before and after it
        let mut v = Vec::new();
        let lens: &[usize] = match tier {
            Tier::Quick => &[MAX_PAYLOAD],
            Tier::Thorough => &[MAX_PAYLOAD - 30, MAX_PAYLOAD, (1 << 24) + 7],
        };
        for (i, &len) in lens.iter().enumerate() {
            v.push(Case {
                id: 9,
                execs: vec![vec![
                    Param { coltype: T_LONG, unsigned: true, value: PVal::Int(0xdead_beef) },
                    Param { coltype: T_LONG_BLOB, unsigned: false, value: PVal::Bytes(crate::gen::pattern(i as u32 + 1, len)) },
                    Param { coltype: T_SHORT, unsigned: false, value: PVal::Int(0xfffe) },
                    Param { coltype: T_VAR_STRING, unsigned: false, value: PVal::Bytes(b"after the big one".to_vec()) },
                ]],
                pre: vec![],
                streamed: vec![],
                others: vec![],
            });
        }
        v
    }
    fn exec(&self, case: &Case) -> Exec {
        let mut ex = Exec::default();
        let n = case.execs.first().map(|e| e.len()).unwrap_or(0);
        let mut cmds = vec![Cmd::Prepare { text: Blob::text("p") }];
        let mut actions = vec![Action::Prepare(PrepProg::Reply { id: case.id, params: (0..n).map(|i| ColSpec::simple(&format!("p{}", i), T_VAR_STRING, 0)).collect(), cols: vec![] })];
        let prep = || Action::Prepare(PrepProg::Reply { id: case.id, params: (0..n).map(|i| ColSpec::simple(&format!("p{}", i), T_VAR_STRING, 0)).collect(), cols: vec![] });
        for (oid, np) in &case.others {
            ex.class("other-statements-prepared-after-this-one");
            if case.id == u32::MAX || case.id == 0 {
                ex.class("statement-id-0-or-0xffffffff-with-other-statements-open");
                ex.nontrivial = true;
            }
            cmds.push(Cmd::Prepare { text: Blob::text("other") });
            actions.push(Action::Prepare(PrepProg::Reply { id: *oid, params: (0..*np).map(|i| ColSpec::simple(&format!("o{}", i), T_LONG, 0)).collect(), cols: vec![] }));
        }
        for (k, e) in case.execs.iter().enumerate() {
            if let Some(Some(p)) = case.pre.get(k) {
                ex.class("statement-prepared-anew-under-the-same-id-before-an-execution");
                if let Some((param, data)) = &p.abandoned_long_data {
                    ex.class("abandoned-long-data-before-re-prepare");
                    ex.nontrivial = true;
                    cmds.push(Cmd::LongData { id: case.id, param: *param, data: Blob::Lit(data.clone()) });
                }
                if p.close_first {
                    cmds.push(Cmd::Close { id: case.id });
                }
                cmds.push(Cmd::Prepare { text: Blob::text("p") });
                actions.push(prep());
            }
            let mut e = e.clone();
            if let Some(Some((p, chunks))) = case.streamed.get(k) {
                let p = *p as usize;
                if p < e.len() && !matches!(e[p].value, PVal::Null) {
                    ex.class("one-parameter-streamed-as-long-data");
                    if chunks.iter().any(|c| c.len() > 4096) && k + 1 < case.execs.len() {
                        ex.class("parameter-streamed-in-chunks->4KiB-then-executed-again");
                    }
                    if chunks.iter().all(|c| c.is_empty()) {
                        ex.class("parameter-streamed-as-empty-long-data");
                        ex.nontrivial = true;
                    }
                    for c in chunks {
                        cmds.push(Cmd::LongData { id: case.id, param: p as u16, data: Blob::Lit(c.clone()) });
                    }
                    // (a client streams BLOB/TEXT parameters: bound as such)
                    e[p].coltype = T_BLOB;
                    e[p].value = PVal::LongData;
                }
            }
            cmds.push(Cmd::Execute { id: case.id, params: e.clone(), send_types: true, flags: 0, iterations: 1 });
            actions.push(Action::Result(Program::completed(0, 0)));
        }
        let conv = Conversation::new(cmds, actions);
        let all: Vec<&Param> = case.execs.iter().flatten().collect();
        if n >= 9 {
            ex.nontrivial = true;
            ex.class("params>=9");
        }
        if all.iter().any(|p| p.unsigned && int_width(p.coltype).is_some()) {
            ex.nontrivial = true;
        }
        for p in &all {
            match &p.value {
                PVal::Date(.., form) => {
                    ex.nontrivial = true;
                    ex.class(format!("date-form-{}", form));
                }
                PVal::Time(.., form) => {
                    ex.nontrivial = true;
                    ex.class(format!("time-form-{}", form));
                }
                PVal::Null => ex.class("null-by-bitmap"),
                PVal::TypeNull => ex.class("type-null"),
                PVal::F32(_) | PVal::F64(_) => ex.class("float"),
                _ => {}
            }
        }
        ex.count("parameters_checked", all.len() as u64);
        let o = run_with(&conv, None, true);
        if let RunResult::Panic(p) = &o.result {
            ex.fail(format!("c08-panic|{}", panic_signature(p)), format!("run_on panicked: {}", o.result.brief()));
            return ex;
        }
        if !o.result.is_ok() {
            ex.fail("c08-run-result", format!("run_on returned {}", o.result.brief()));
            return ex;
        }
        let execs: Vec<&Event> = o.events.iter().filter(|e| matches!(e, Event::Execute { .. })).collect();
        if execs.len() != case.execs.len() {
            ex.fail("c08-exec-count", format!("{} executions reached the shim, client sent {}", execs.len(), case.execs.len()));
            return ex;
        }
        for (k, (ev, sent)) in execs.iter().zip(&case.execs).enumerate() {
            if let Event::Execute { id, params } = ev {
                if *id != case.id {
                    ex.fail("c08-id", format!("execution {} reached the shim with id {}, client sent {}", k, id, case.id));
                }
                let want: Vec<_> = sent
                    .iter()
                    .enumerate()
                    .map(|(i, p)| match case.streamed.get(k) {
                        Some(Some((sp, chunks))) if *sp as usize == i && !matches!(p.value, PVal::Null) => {
                            let data: Vec<u8> = chunks.concat();
                            expected_seen(&Param { coltype: T_BLOB, unsigned: p.unsigned, value: PVal::LongData }, Some(&data))
                        }
                        _ => expected_seen(p, None),
                    })
                    .collect();
                if let Err(m) = compare_seen(params, &want, true) {
                    let key = if m.contains("conversion") { "c08-conversion" } else { "c08-param-differs" };
                    // conversion panics carry their site in the text
                    let key = match params.iter().find_map(|p| if let Conv::Panicked(s) = &p.conv { Some(s.clone()) } else { None }) {
                        Some(site) if key == "c08-conversion" => format!("c08-conversion-panic|{}", normalise_msg(&site)),
                        _ => key.to_string(),
                    };
                    ex.fail(key, format!("execution {}: {}", k, m));
                    return ex;
                }
            }
        }
        ex
    }
}
