//! C02 — each client command reaches exactly the right shim callback, verbatim.

use crate::conv::*;
use crate::engine::*;
use crate::gen::G;
use crate::gens::*;
use crate::shim::*;
use crate::wire::{PVal, Param, T_BLOB, T_LONG};
use serde::{Deserialize, Serialize};

pub struct C02;

#[derive(Clone, Debug, Serialize, Deserialize, PartialEq)]
pub enum QClass {
    /// built-in system-variable probe, as the property spells it
    Probe,
    /// `USE <db>` in the spellings clients emit; carries the bare name
    Use(String),
    /// certainly neither
    Plain,
    /// means the same in SQL but is not spelled as the property lists: may go either way
    Grey,
}

#[derive(Clone, Debug, Serialize, Deserialize)]
pub enum Item {
    Query { text: Vec<u8>, class: QClass },
    /// a plain query of `len` printable pattern bytes (kept symbolic)
    BigQuery { seed: u32, len: usize },
    Prepare { text: Vec<u8>, reply: Option<(u32, usize)> },
    Execute { id: u32 },
    LongData { id: u32, data: Vec<u8> },
    Close { id: u32 },
    InitDb { name: Vec<u8> },
    FieldList { arg: Vec<u8> },
    Ping,
    Quit,
}

#[derive(Clone, Debug, Serialize, Deserialize)]
pub struct Case {
    pub items: Vec<Item>,
    /// read chunk sizes (cycled); empty = everything in one read
    #[serde(default)]
    pub chunks: Vec<usize>,
    /// transport operation at which a read is interrupted once (ErrorKind::Interrupted), if that
    /// operation is a read
    #[serde(default)]
    pub eintr_at: Option<usize>,
    /// what the client announced in its handshake response: (max_packet_size, character set /
    /// collation).  Text reaches the shim verbatim whatever the client calls its character set.
    #[serde(default)]
    pub announced: Option<(u32, u8)>,
}

fn gen_plain_text(g: &mut G<'_>) -> String {
    let t = match g.weighted(&[8, 8, 4, 2, 1]) {
        4 => gen_prefixed_builtin(g),
        0 => g.pick(&["SELECT 1", "INSERT INTO t VALUES (1)", "select * from foo", "SHOW TABLES", "x", "", "\u{0}", "SELECT 'USE x'", "-- use db"]).to_string(),
        1 => gen_string(g, false),
        // look-alikes that are neither a system-variable probe nor a USE statement
        2 => g
            .pick(&["SELECT @x", "SELECT 1 -- @@", "SELEC @@", "USER()", "USEFUL", "use_db", "SELECT @", "SELECT@x", "SELECTED @@", "usedb", "USE_", "select @ @", "SELECT 1, @@x", "(SELECT @@x)", "us e x"])
            .to_string(),
        _ => {
            let n = g.usize_in(1000, 20_000);
            let seed = g.raw();
            (0..n as u64).map(|i| (b'!' + crate::gen::pattern_byte(seed, i) % 90) as char).collect()
        }
    };
    if looks_builtin_or_grey(&t) {
        format!("/*q*/{}", t)
    } else {
        t
    }
}

fn gen_query_item(g: &mut G<'_>) -> Item {
    match g.weighted(&[6, 3, 3, 2]) {
        0 => Item::Query { text: gen_plain_text(g).into_bytes(), class: QClass::Plain },
        1 => {
            let head = if g.coin() { "SELECT @@" } else { "select @@" };
            let tail = match g.below(4) {
                0 => "max_allowed_packet".to_string(),
                1 => "version_comment limit 1".to_string(),
                2 => String::new(),
                _ => gen_string(g, false),
            };
            Item::Query { text: format!("{}{}", head, tail).into_bytes(), class: QClass::Probe }
        }
        2 => {
            let (q, name) = gen_use_stmt(g);
            Item::Query { text: q.into_bytes(), class: QClass::Use(name) }
        }
        _ => {
            let t = g
                .pick(&["SeLeCt @@x", "select@@x", "SELECT  @@x", "USE\tdb", " USE db", "Use db", "uSE db", "  select @@a", "SELECT\n@@x", "use\ndb", "USE", "use", "USE  ", "use ``", "Select @@x"])
                .to_string();
            Item::Query { text: t.into_bytes(), class: QClass::Grey }
        }
    }
}

fn invalid_utf8(g: &mut G<'_>) -> Vec<u8> {
    let mut v = b"SELECT '".to_vec();
    let bad: [&[u8]; 6] = [b"\xff", b"\xc3\x28", b"\xe2\x82", b"\xf0\x28\x8c\xbc", b"\x80", b"abc\xfe"];
    v.extend_from_slice(*g.pick(&bad));
    if g.coin() {
        v.extend_from_slice(b"'");
    }
    if g.chance(1, 4) {
        // invalid bytes behind a built-in-looking prefix
        let mut w = b"USE ".to_vec();
        w.extend_from_slice(&v);
        return w;
    }
    v
}

/// what the model accepts for one item
enum Accept {
    Nothing,
    Exactly(Event),
    /// grey query: swallowed, or on_query(verbatim), or on_init(some bare name)
    GreyQuery(String),
    /// the connection must end here without a callback
    Ends,
}

/// The model of one case: the commands to send, the (id, nparams) replies the auto shim gives to the
/// PREPAREs that reach it, and what the callback log may contain per command.
/// `ends_at_bad`: text that is not valid UTF-8 ends the connection there (the pinned behaviour);
/// otherwise it is answered by the library without a callback and the conversation goes on - the
/// property only says that such text is never handed to the shim.
struct Model {
    cmds: Vec<Cmd>,
    ids: Vec<Option<(u32, usize)>>,
    accepts: Vec<Accept>,
    has_bad_text: bool,
    kinds_seen: std::collections::HashSet<&'static str>,
}

fn build_model(case: &Case, ends_at_bad: bool, ex: &mut Exec) -> Model {
    let mut cmds = Vec::new();
    let mut ids = Vec::new();
    let mut accepts: Vec<Accept> = Vec::new();
    let mut kinds_seen = std::collections::HashSet::new();
    let mut ended = false; // after QUIT nothing is served
    let mut must_err = false;
    // long data pending per statement id (every statement declares one parameter)
    let mut pending: std::collections::HashMap<u32, Vec<u8>> = Default::default();
    for it in &case.items {
        let utf8_ok = |b: &[u8]| std::str::from_utf8(b).is_ok();
        match it {
            Item::Query { text, class } => {
                kinds_seen.insert("query");
                cmds.push(Cmd::Query { text: Blob::Lit(text.clone()) });
                if ended {
                    accepts.push(Accept::Nothing);
                    continue;
                }
                if !utf8_ok(text) {
                    ex.class("non-utf8-text");
                    ex.nontrivial = true;
                    must_err = true;
                    if ends_at_bad {
                        accepts.push(Accept::Ends);
                        ended = true;
                    } else {
                        accepts.push(Accept::Nothing);
                    }
                    continue;
                }
                let t = String::from_utf8(text.clone()).unwrap();
                match class {
                    QClass::Probe => {
                        ex.class("builtin-probe");
                        accepts.push(Accept::Nothing)
                    }
                    QClass::Use(name) => {
                        ex.class("use-statement");
                        ex.nontrivial = true;
                        accepts.push(Accept::Exactly(Event::Init(name.clone())))
                    }
                    QClass::Plain => {
                        if t.to_ascii_lowercase().contains("use") || t.contains('@') {
                            ex.class("look-alike");
                            ex.nontrivial = true;
                        }
                        accepts.push(Accept::Exactly(Event::Query(t)))
                    }
                    QClass::Grey => {
                        ex.class("grey-spelling");
                        ex.nontrivial = true;
                        accepts.push(Accept::GreyQuery(t))
                    }
                }
            }
            Item::BigQuery { seed, len } => {
                kinds_seen.insert("query");
                ex.class("multi-packet-query");
                ex.nontrivial = true;
                cmds.push(Cmd::Query { text: Blob::Text { seed: *seed, len: *len } });
                if ended {
                    accepts.push(Accept::Nothing);
                } else {
                    accepts.push(Accept::Exactly(Event::Query(String::from_utf8(Blob::Text { seed: *seed, len: *len }.bytes()).unwrap())));
                }
            }
            Item::Prepare { text, reply } => {
                kinds_seen.insert("prepare");
                cmds.push(Cmd::Prepare { text: Blob::Lit(text.clone()) });
                if ended {
                    accepts.push(Accept::Nothing);
                    continue;
                }
                if !utf8_ok(text) {
                    ex.class("non-utf8-text");
                    ex.nontrivial = true;
                    must_err = true;
                    if ends_at_bad {
                        accepts.push(Accept::Ends);
                        ended = true;
                    } else {
                        accepts.push(Accept::Nothing);
                    }
                    continue;
                }
                ids.push(*reply);
                if let Some((id, _)) = reply {
                    pending.remove(id);
                }
                accepts.push(Accept::Exactly(Event::Prepare(String::from_utf8(text.clone()).unwrap())));
            }
            Item::Execute { id } => {
                kinds_seen.insert("execute");
                // the one parameter: streamed before (then omitted inline, as clients do) or a LONG
                let (param, seen) = match pending.remove(id) {
                    Some(data) => (Param { coltype: T_BLOB, unsigned: false, value: PVal::LongData }, SeenParam { coltype: T_BLOB, inner: Inner::Bytes(data), conv: Conv::NotTried, conv_str: None }),
                    None => (Param { coltype: T_LONG, unsigned: false, value: PVal::Int(7) }, SeenParam { coltype: T_LONG, inner: Inner::Int(7), conv: Conv::NotTried, conv_str: None }),
                };
                cmds.push(Cmd::Execute { id: *id, params: vec![param], send_types: true, flags: 0, iterations: 1 });
                accepts.push(if ended { Accept::Nothing } else { Accept::Exactly(Event::Execute { id: *id, params: vec![seen] }) });
            }
            Item::LongData { id, data } => {
                kinds_seen.insert("long_data");
                cmds.push(Cmd::LongData { id: *id, param: 0, data: Blob::Lit(data.clone()) });
                if !ended {
                    pending.entry(*id).or_default().extend_from_slice(data);
                }
                accepts.push(Accept::Nothing);
            }
            Item::Close { id } => {
                kinds_seen.insert("close");
                cmds.push(Cmd::Close { id: *id });
                pending.remove(id);
                accepts.push(if ended { Accept::Nothing } else { Accept::Exactly(Event::Close(*id)) });
            }
            Item::InitDb { name } => {
                kinds_seen.insert("init_db");
                cmds.push(Cmd::InitDb { name: Blob::Lit(name.clone()) });
                if ended {
                    accepts.push(Accept::Nothing);
                    continue;
                }
                if !utf8_ok(name) {
                    ex.class("non-utf8-text");
                    ex.nontrivial = true;
                    must_err = true;
                    if ends_at_bad {
                        accepts.push(Accept::Ends);
                        ended = true;
                    } else {
                        accepts.push(Accept::Nothing);
                    }
                    continue;
                }
                accepts.push(Accept::Exactly(Event::Init(String::from_utf8(name.clone()).unwrap())));
            }
            Item::FieldList { arg } => {
                kinds_seen.insert("field_list");
                cmds.push(Cmd::FieldList { arg: arg.clone() });
                accepts.push(Accept::Nothing);
            }
            Item::Ping => {
                kinds_seen.insert("ping");
                cmds.push(Cmd::Ping);
                accepts.push(Accept::Nothing);
            }
            Item::Quit => {
                kinds_seen.insert("quit");
                cmds.push(Cmd::Quit);
                accepts.push(Accept::Nothing);
                ended = true;
            }
        }
    }
    let _ = must_err;
    Model { cmds, ids, accepts, has_bad_text: must_err, kinds_seen }
}

impl Prop for C02 {
    type Case = Case;
    fn id(&self) -> &'static str {
        "C02"
    }
    fn rule(&self) -> String {
        "cases = sequences of 0-40 commands over {QUERY, PREPARE, EXECUTE, SEND_LONG_DATA, CLOSE, INIT_DB, FIELD_LIST, PING, QUIT}. Query text comes from classes kept apart so the oracle never demands more than the property says: (A) built-in as the property spells them (`SELECT @@`/`select @@` + arbitrary tail; `USE `/`use ` + optional blanks + bare or back-quoted name (quoted names may contain spaces and ';') + optional ';' + optional trailing whitespace); (B) certainly not built-in (arbitrary UTF-8 incl. NUL and multi-byte, up to 20 KB, and look-alikes such as `SELECT @x`, `SELEC @@`, `USER()`, `USEFUL`, `use_db`, or a built-in statement behind a byte order mark, zero-width space, control character or other non-blank character); (C) grey spellings (`SeLeCt @@x`, `select@@x`, `USE\\tdb`, leading blanks) that may go either way; plus query / prepare / init payloads that are not UTF-8. Statement ids are arbitrary u32 values chosen by the shim.  COM_INIT_DB names include ones with back-quotes, ';' and blanks at their edges (they are the name); the handshake response announces a generated character set (latin1, utf8, utf8mb4, binary, random) and max_packet_size, which must not change what the shim is shown.  The client stream is delivered under a generated read chunking, and in 1 of 4 cases one read is interrupted once with ErrorKind::Interrupted (the library may report or retry it; either way the shim must only see what the client sent). Oracle: executable model mapping the command list to the expected callback log (whole-log equality, so extra, missing or reordered callbacks all show). Non-trivial = >= 3 distinct command kinds, or a class-A USE, a look-alike, a grey or a non-UTF-8 item.".into()
    }
    fn assumptions(&self) -> Vec<String> {
        vec!["grey spellings (class C) are only required to arrive verbatim if they reach on_query and bare if they reach on_init".into()]
    }
    fn cases(&self, tier: Tier) -> u64 {
        tier.pick(400000, 3000000)
    }
    fn fuzz_plan(&self, tier: Tier) -> Vec<(&'static str, u64)> {
        if tier == Tier::Thorough {
            vec![("prop", 150_000)]
        } else {
            vec![]
        }
    }
    fn choice_len(&self) -> usize {
        4096
    }
    fn gen(&self, g: &mut G<'_>, _tier: Tier) -> Case {
        let maxn = if g.chance(1, 6) { 40 } else { 10 };
        let n = g.usize_in(0, maxn);
        let mut items = Vec::new();
        let mut live: Vec<u32> = Vec::new();
        for _ in 0..n {
            match g.weighted(&[8, 3, 3, 1, 2, 2, 1, 2, 1]) {
                0 => items.push(gen_query_item(g)),
                1 => {
                    let reply = if g.chance(1, 6) {
                        None
                    } else {
                        let id = match g.below(3) {
                            0 => g.below(5) as u32,
                            1 => *g.pick(&[u32::MAX, 1 << 31, 0x0102_0304, 65_536, 255, 256]),
                            _ => g.raw(),
                        };
                        if !live.contains(&id) {
                            live.push(id);
                        }
                        Some((id, 1))
                    };
                    items.push(Item::Prepare { text: gen_plain_text(g).into_bytes(), reply });
                }
                2 if !live.is_empty() => items.push(Item::Execute { id: *g.pick(&live) }),
                3 if !live.is_empty() => {
                    let n = g.usize_in(0, 10);
                    items.push(Item::LongData { id: *g.pick(&live), data: g.bytes(n) })
                }
                4 => {
                    // close a live id or an arbitrary one
                    if !live.is_empty() && g.coin() {
                        let k = g.below(live.len() as u64) as usize;
                        items.push(Item::Close { id: live.remove(k) });
                    } else {
                        let id = g.raw();
                        live.retain(|x| *x != id);
                        items.push(Item::Close { id });
                    }
                }
                5 => items.push(Item::InitDb {
                    // COM_INIT_DB carries the bare name: whatever it contains is the name
                    name: match g.weighted(&[4, 2, 2]) {
                        0 => gen_name(g).into_bytes(),
                        1 => gen_string(g, false).into_bytes(),
                        _ => g.pick(&["`quoted`", "reports;", " padded ", "a;b", ";", "`", "x`;", "\tt", "USE db", "use `d`;", "d ", " d"]).as_bytes().to_vec(),
                    },
                }),
                6 => items.push(Item::FieldList { arg: gen_bytes(g, false) }),
                7 => items.push(Item::Ping),
                _ => items.push(gen_query_item(g)),
            }
        }
        // sometimes one non-UTF-8 text, sometimes QUIT, near the end
        if g.chance(1, 5) {
            let at = g.usize_in(0, items.len());
            let bad = invalid_utf8(g);
            let it = match g.below(3) {
                0 => Item::Query { text: bad, class: QClass::Plain },
                1 => Item::Prepare { text: bad, reply: Some((4242, 1)) },
                _ => Item::InitDb { name: bad },
            };
            items.insert(at, it);
        } else if g.chance(1, 5) {
            let at = g.usize_in(0, items.len());
            items.insert(at, Item::Quit);
        }
        let chunks = match g.weighted(&[3, 2, 2]) {
            0 => vec![],
            1 => vec![*g.pick(&[1usize, 2, 3, 5, 7])],
            _ => (0..g.usize_in(1, 4)).map(|_| *g.pick(&[1usize, 2, 4, 9, 17, 64, 4096])).collect(),
        };
        let eintr_at = if g.chance(1, 4) { Some(g.usize_in(1, 80)) } else { None };
        let announced = if g.chance(2, 3) { Some(gen_client_announcements(g)) } else { None };
        Case { items, chunks, eintr_at, announced }
    }
    fn fixed(&self, tier: Tier) -> Vec<Case> {
        // arbitrary text includes long text: a query of several wire packets between ordinary
        // commands, delivered in reads that are much shorter than the command
        let mut v = Vec::new();
        let lens: &[usize] = match tier {
            Tier::Quick => &[40_000_000],
            Tier::Thorough => &[17_000_000, 33_554_440, 40_000_000, 52_000_000],
        };
        for (i, &len) in lens.iter().enumerate() {
            for &chunk in &[1usize << 20, 65_536 * 3 + 1] {
                v.push(Case {
                    items: vec![
                        Item::Query { text: b"SELECT 1".to_vec(), class: QClass::Plain },
                        Item::BigQuery { seed: i as u32 + 1, len },
                        Item::Query { text: b"SELECT 2".to_vec(), class: QClass::Plain },
                        Item::InitDb { name: b"after".to_vec() },
                        Item::Quit,
                    ],
                    chunks: vec![chunk],
                    eintr_at: None,
                    announced: None,
                });
                if tier == Tier::Quick {
                    break;
                }
            }
        }
        v
    }
    fn exec(&self, case: &Case) -> Exec {
        let mut ex = Exec::default();
        // conversation + model (the reading in which non-UTF-8 text ends the connection classifies)
        let Model { accepts, has_bad_text: must_err, kinds_seen, .. } = build_model(case, true, &mut ex);
        // the other reading of non-UTF-8 text (answered by the library, connection kept): its list of
        // PREPARE replies also covers the statements prepared after such text
        let mut scratch = Exec::default();
        // (the commands sent are those of this reading too: under the first one nothing after the
        // offending text is looked at)
        let Model { cmds, ids, accepts: accepts_kept, .. } = build_model(case, false, &mut scratch);
        if kinds_seen.len() >= 3 {
            ex.nontrivial = true;
        }
        // executes of ids that are not live at that point would end the connection (C10's
        // business): the generator only executes prepared ids, but a rejected prepare or a close
        // in between can invalidate one; drop such cases from this property's domain
        {
            let mut live: std::collections::HashSet<u32> = Default::default();
            let mut quit = false;
            let mut bad = false;
            for it in &case.items {
                if quit {
                    break;
                }
                match it {
                    Item::Prepare { reply: Some((id, _)), text } if std::str::from_utf8(text).is_ok() => {
                        live.insert(*id);
                    }
                    Item::Prepare { text, .. } | Item::Query { text, .. } if std::str::from_utf8(text).is_err() => break,
                    Item::BigQuery { .. } => {}
                    Item::InitDb { name } if std::str::from_utf8(name).is_err() => break,
                    Item::Close { id } => {
                        live.remove(id);
                    }
                    Item::Execute { id } | Item::LongData { id, .. } => {
                        if !live.contains(id) {
                            bad = true;
                        }
                    }
                    Item::Quit => quit = true,
                    _ => {}
                }
            }
            if bad {
                ex.class("out-of-domain:execute-of-dead-id");
                ex.nontrivial = false;
                return ex;
            }
        }
        let mut conv = Conversation::new(cmds, vec![]);
        conv.auto_ids = Some(ids);
        if let (Some((mp, cs)), HsKind::V41 { max_packet, charset, .. }) = (case.announced, &mut conv.hs.kind) {
            *max_packet = mp;
            *charset = cs;
            if must_err && cs != 0x21 {
                ex.class("non-utf8-text-from-a-client-announcing-another-character-set");
            }
        }
        if !case.chunks.is_empty() {
            conv.sched.sizes = case.chunks.iter().map(|&c| c.max(1)).collect();
        }
        if let Some(k) = case.eintr_at {
            conv.fault = crate::transport::Fault::InterruptedRead(k);
        }
        let o = run_with(&conv, None, false);
        // an interrupted read may be reported (Err) or retried; if it was reported the log is a
        // prefix of the model's
        let interrupted = o.fault_fired_at_op.is_some();
        if interrupted {
            ex.class("read-interrupted(EINTR)");
        }
        if let RunResult::Panic(p) = &o.result {
            ex.fail(format!("c02-panic|{}", panic_signature(p)), format!("run_on panicked: {}", o.result.brief()));
            return ex;
        }
        // Text that is not valid UTF-8 "is never handed to the shim": the library may end the
        // connection there (Err; the pinned behaviour) or answer the command itself and go on (then
        // the rest of the conversation is served and run_on returns Ok).  Which reading applies is
        // read off the result; the callback log is then compared with that reading's model.
        let mut accepts = accepts;
        if interrupted && o.result.is_err() {
            // fine: reported (the log is then a prefix of either reading's model)
        } else if must_err {
            if !o.result.is_err() {
                ex.class("non-utf8-text-answered-and-connection-kept");
            }
        } else if !o.result.is_ok() {
            ex.fail("c02-run-result", format!("run_on returned {}", o.result.brief()));
            return ex;
        }
        // align the log with the model; grey items may or may not have produced a callback, so the
        // alignment is searched (lists are short)
        let got: Vec<&Event> = o.events.iter().skip(1).collect();
        fn grey_ok(ev: &Event, t: &str) -> bool {
            match ev {
                Event::Query(q) => q == t,
                // a bare name: no quotes, no trailing semicolon, no surrounding blanks, taken from the text
                Event::Init(n) => !n.contains('`') && !n.ends_with(';') && n.trim() == n && t.contains(n.as_str()),
                _ => false,
            }
        }
        let allow_prefix = interrupted && o.result.is_err();
        fn align(accepts: &[Accept], got: &[&Event], k: usize, gi: usize, memo: &mut std::collections::HashSet<(usize, usize)>, allow_prefix: bool) -> bool {
            if k == accepts.len() {
                return gi == got.len();
            }
            if allow_prefix && gi == got.len() {
                return true;
            }
            if !memo.insert((k, gi)) {
                return false;
            }
            match &accepts[k] {
                Accept::Nothing => align(accepts, got, k + 1, gi, memo, allow_prefix),
                Accept::Ends => gi == got.len(),
                Accept::Exactly(w) => gi < got.len() && got[gi] == w && align(accepts, got, k + 1, gi + 1, memo, allow_prefix),
                Accept::GreyQuery(t) => align(accepts, got, k + 1, gi, memo, allow_prefix) || (gi < got.len() && grey_ok(got[gi], t) && align(accepts, got, k + 1, gi + 1, memo, allow_prefix)),
            }
        }
        let mut memo = Default::default();
        let mut aligned = align(&accepts, &got, 0, 0, &mut memo, allow_prefix);
        if !aligned && must_err {
            // the reading in which the library answers non-UTF-8 text itself and keeps the connection
            let mut memo2 = Default::default();
            if align(&accepts_kept, &got, 0, 0, &mut memo2, allow_prefix) {
                aligned = true;
            } else if !o.result.is_err() {
                // explain against the model of the reading the result points to
                accepts = accepts_kept;
            }
        }
        if !aligned {
            // explain with a greedy walk
            let mut gi = 0;
            let mut why = None;
            for (k, a) in accepts.iter().enumerate() {
                let name = conv.cmds[k].cmd.name();
                match a {
                    Accept::Nothing => {}
                    Accept::Ends => break,
                    Accept::Exactly(w) => match got.get(gi) {
                        Some(g) if *g == w => gi += 1,
                        Some(g) => {
                            why = Some(("c02-wrong-callback", format!("command {} ({}): shim saw {}, model expects {}", k, name, g.brief(), w.brief())));
                            break;
                        }
                        None => {
                            why = Some(("c02-missing-callback", format!("command {} ({}): no callback, model expects {}", k, name, w.brief())));
                            break;
                        }
                    },
                    Accept::GreyQuery(t) => {
                        if let Some(g) = got.get(gi) {
                            if grey_ok(g, t) {
                                gi += 1;
                            } else if let Event::Init(n) = g {
                                if t.to_ascii_lowercase().trim_start().starts_with("use") && !matches!(accepts.get(k + 1), Some(Accept::Exactly(Event::Init(_)))) {
                                    why = Some(("c02-use-name-not-bare", format!("command {} ({:?}) reached on_init with name {:?}", k, t, n)));
                                    break;
                                }
                            }
                        }
                    }
                }
            }
            let (key, msg) = why.unwrap_or((
                "c02-extra-callback",
                format!("shim saw {} callbacks, the model accounts for {}; first unexplained: {}", got.len(), gi, got.get(gi).map(|e| e.brief()).unwrap_or_default()),
            ));
            ex.fail(key, msg);
        }
        ex
    }
}
