//! C19 — connection end and transport faults are reported, never masked.
//! Fault enumeration: every conversation is run fault-free, then with a fault at every point.

use crate::conv::*;
use crate::engine::*;
use crate::gen::G;
use crate::gens::*;
use crate::shim::*;
use crate::transport::*;
use serde::{Deserialize, Serialize};

pub struct C19;

#[derive(Clone, Debug, Serialize, Deserialize)]
pub struct Case {
    pub conv: Conversation,
    /// enumerate only every `stride`-th fault point (1 = all)
    pub stride: usize,
    /// run the conversation over TLS instead and end it at TLS-level points (see `exec_tls`)
    #[serde(default)]
    pub tls: Option<TlsEnds>,
    /// conversations with a multi-packet request are too long to cut at every byte: cut only at
    /// these positions (and skip the other fault kinds)
    #[serde(default)]
    pub only_eof_at: Vec<usize>,
}

#[derive(Clone, Debug, Serialize, Deserialize)]
pub struct TlsEnds {
    pub tls13: bool,
    pub lockstep: bool,
    /// choices for the sampled end-of-stream positions inside the TLS handshake
    pub picks: Vec<u32>,
}

pub const KEY_DROP_PANIC: &str = "c19-panic-in-writer-drop";

fn is_drop_unwrap(p: &PanicRec) -> bool {
    let sig = panic_signature(p);
    sig.contains("src/resultset.rs") && (sig.contains("self.finalize(false).unwrap();") || sig.contains("self.finish_inner(true).unwrap();"))
}

impl Prop for C19 {
    type Case = Case;
    fn id(&self) -> &'static str {
        "C19"
    }
    fn level(&self) -> &'static str {
        "fault_enumeration"
    }
    fn rule(&self) -> String {
        "cases = a generated conversation (C03-style: writer programs with explicit finishes and drops, prepared statements, QUIT- or EOF-terminated, generated read/write chunking) run fault-free to obtain its operation trace (N transport operations, B inbound bytes), then re-run with EVERY fault point: end-of-stream after k bytes for k = 0..B; a one-off error at operation k and a persistent error from operation k (each with io::ErrorKind ConnectionReset, UnexpectedEof and one of Other / BrokenPipe / TimedOut), write() -> Ok(0) at operation k for k = 0..N-1, and a read interrupted with ErrorKind::Interrupted at every read operation (which the library may either report or retry transparently, but the callback log must stay a prefix of the fault-free log); plus a tagged shim error at every callback index; enumerated conversations whose response contains a packet of 2^24-1 bytes or more (written explicitly and from a destructor), and a multi-packet *request* cut at, around and inside every fragment boundary; one generated conversation in twelve is instead run over TLS (rustls client in the transport) and ended at TLS-level points: a clean close (close_notify + end of stream) after the first m messages for every m (m = 0: TLS session established but no handshake response => Err and no callback; m >= 1 => Ok), and an abrupt end of stream at 10 sampled positions before the encrypted handshake response is complete (=> Err, no callback), and four malformed encrypted handshake responses (truncated; unterminated long UTF-8 user name => Err, no callback, no panic). Oracle: EOF => Ok iff k is a command boundary at or after the end of the handshake exchange (or QUIT was already consumed), else Err; transport fault => Err (never Ok, never a panic), the callback log is a prefix of the fault-free log and no callback starts after the fault; shim error => returned unchanged, no later callback. evaluations counts conversations; faulted_runs counts the enumerated re-runs. Conversations whose fault-free run already takes tens of thousands of transport operations (a 70 KB message through a transport that takes one byte per write), or thousands of operations on tens of megabytes, have their fault points sampled with a stride so that a case stays within ~5e7 operations (class fault-points-sampled); all others enumerate every point. A write or flush that fails once with ErrorKind::Interrupted may be reported or retried (std's write_all retries it): then the conversation must be exactly the fault-free one; it must never make run_on spin. Non-trivial = the conversation has >= 3 commands and >= 1 resultset program.".into()
    }
    fn exhaustive_note(&self, _tier: Tier) -> Option<String> {
        Some("fault points of each generated conversation (all k for EOF / one-off / persistent / zero-write faults, all callback indexes for shim errors)".into())
    }
    fn cases(&self, tier: Tier) -> u64 {
        tier.pick(2500, 25000)
    }
    fn choice_len(&self) -> usize {
        4096
    }
    fn gen(&self, g: &mut G<'_>, _tier: Tier) -> Case {
        let opts = ConvOpts { max_cmds: 5, max_rows: 3, sentinels: false, default_init_sometimes: true, quit_sometimes: true };
        let mut conv = gen_conv(g, &opts);
        let (len, ends, _) = client_stream_meta(&conv);
        conv.sched = gen_schedule(g, len, &ends);
        // keep the operation count moderate: no one-byte schedules on long streams
        if len > 600 && conv.sched.sizes.iter().all(|&s| s < 8) {
            conv.sched.sizes.push(4096);
        }
        // one case in twelve: the same questions over TLS (clean close after each message, end of
        // stream inside the TLS handshake)
        let tls = if g.chance(1, 12) { Some(TlsEnds { tls13: g.coin(), lockstep: g.chance(2, 3), picks: (0..10).map(|_| g.raw()).collect() }) } else { None };
        if tls.is_some() {
            conv.hs = Handshake::default_user("tlsuser");
            if let HsKind::V41 { caps, .. } = &mut conv.hs.kind {
                *caps |= crate::wire::CAP_SSL;
            }
            conv.hs.seq = 2;
            conv.sched = Schedule::all_at_once();
        }
        Case { conv, stride: 1, tls, only_eof_at: vec![] }
    }
    fn fixed(&self, tier: Tier) -> Vec<Case> {
        // responses containing a packet of 2^24-1 bytes or more, written explicitly and from the
        // writers' destructors: the fault points around the maximal packet matter too
        use crate::vals::*;
        use crate::wire::*;
        let mut v = Vec::new();
        let lens: &[usize] = match tier {
            // (the message of more than two maximal packets: in the quick tier only as a text row)
            Tier::Quick => &[MAX_PAYLOAD + 10, 2 * MAX_PAYLOAD + 5],
            Tier::Thorough => &[MAX_PAYLOAD - 6, MAX_PAYLOAD - 3, MAX_PAYLOAD + 10, 2 * MAX_PAYLOAD + 5],
        };
        for (i, &len) in lens.iter().enumerate() {
            for variant in 0..3 {
                if tier == Tier::Quick && len > 2 * MAX_PAYLOAD && variant != 1 {
                    continue;
                }
                let big = |form| RowProg { cells: vec![Val::plain(Base::BigBytes { seed: i as u32 + 3, len })], form, offers: vec![] };
                let small = RowProg { cells: vec![Val::plain(Base::Slice(b"x".to_vec()))], form: RowForm::WriteRow, offers: vec![] };
                let cols = vec![ColSpec::simple("c", T_LONG_BLOB, 0)];
                let (bin, rows, end) = match variant {
                    // binary, last row left open, RowWriter dropped: the big packet leaves from a destructor
                    0 => (true, vec![small.clone(), big(RowForm::ColsOpen)], SetEnd::DropRowWriter),
                    // text, explicit finish
                    1 => (false, vec![big(RowForm::WriteRow), small.clone()], SetEnd::Finish),
                    // binary, explicit end_row, QueryResultWriter dropped after finish_one
                    _ => (true, vec![big(RowForm::Cols)], SetEnd::FinishOne),
                };
                let mut steps = vec![Step::Set { cols, rows, end }];
                if variant == 2 {
                    steps.push(Step::DropResultWriter);
                }
                let prog = Program { steps };
                let conv = if bin {
                    Conversation::new(
                        vec![Cmd::Prepare { text: Blob::text("p") }, Cmd::Execute { id: 1, params: vec![], send_types: false, flags: 0, iterations: 1 }, Cmd::Close { id: 1 }, Cmd::Quit],
                        vec![Action::Prepare(PrepProg::Reply { id: 1, params: vec![], cols: vec![] }), Action::Result(prog)],
                    )
                } else {
                    Conversation::new(vec![Cmd::Query { text: Blob::text("big") }, Cmd::Ping], vec![Action::Result(prog)])
                };
                v.push(Case { conv, stride: 1, tls: None, only_eof_at: vec![] });
            }
        }
        // a request of several packets: the stream ends at, just before and just after every
        // fragment boundary, inside the fragment headers and inside the fragments
        let qlens: &[usize] = match tier {
            Tier::Quick => &[MAX_PAYLOAD + 70],
            Tier::Thorough => &[MAX_PAYLOAD - 1, MAX_PAYLOAD, MAX_PAYLOAD + 70, 2 * MAX_PAYLOAD, 2 * MAX_PAYLOAD + 9],
        };
        for (i, &len) in qlens.iter().enumerate() {
            let conv = Conversation::new(vec![Cmd::Ping, Cmd::Query { text: Blob::Text { seed: i as u32 + 60, len: len - 1 } }, Cmd::Ping], vec![Action::Result(Program::completed(1, 1))]);
            let (_, ends, _) = client_stream_meta(&conv);
            // the query's bytes start at ends[1] (after handshake response and ping)
            let start = ends[1];
            let mut cuts = vec![start, start + 1, start + 3, start + 4, start + 5, start + 1000];
            let mut off = start;
            let mut left = len;
            loop {
                let n = left.min(MAX_PAYLOAD);
                off += 4 + n;
                for d in [-5i64, -1, 0, 1, 3, 4, 5] {
                    let k = off as i64 + d;
                    if k > start as i64 && (k as usize) <= ends[2] {
                        cuts.push(k as usize);
                    }
                }
                if n < MAX_PAYLOAD {
                    break;
                }
                left -= n;
            }
            cuts.sort();
            cuts.dedup();
            v.push(Case { conv, stride: 1, tls: None, only_eof_at: cuts });
        }
        v
    }
    fn exec(&self, case: &Case) -> Exec {
        let mut ex = Exec::default();
        let c = &case.conv;
        if let Some(t) = &case.tls {
            exec_tls(c, t, &mut ex);
            return ex;
        }
        let base = run_with(c, None, false);
        if !base.result.is_ok() {
            ex.fail(
                match &base.result {
                    RunResult::Panic(p) => format!("c19-panic|{}", panic_signature(p)),
                    _ => "c19-baseline".to_string(),
                },
                format!("fault-free run returned {}", base.result.brief()),
            );
            return ex;
        }
        let n_ops = base.n_ops;
        let b = base.inbound_len;
        let has_prog = c.actions.iter().any(|a| matches!(a, Action::Result(p) if p.steps.iter().any(|s| matches!(s, Step::Set { .. }))));
        ex.nontrivial = c.cmds.len() >= 3 && has_prog;
        if base.out.len() > (1 << 24) {
            ex.class("response-with-maximal-packet");
            // EOF positions inside the tiny request stream are few; ops are few too
        }
        let quit_end = c.cmds.iter().position(|sc| matches!(sc.cmd, Cmd::Quit)).map(|i| base.msg_ends[i + 1]);
        let mut runs = 0u64;
        let mut drop_panics = 0u64;
        // every fault point of a conversation means one more run of it: where the fault-free run
        // already takes tens of thousands of transport operations (a 70 KB message through a
        // transport that accepts one byte per write), the points are sampled so that the work per
        // case stays bounded (~5e7 operations); ordinary cases enumerate all of them
        let budget = 50_000_000usize;
        // (what one run costs: its transport operations, and the bytes it moves)
        let run_cost = n_ops + (base.out.len() + b) / 256;
        let op_stride = case.stride.max(1).max((8 * n_ops.saturating_mul(run_cost) + budget - 1) / budget);
        let eof_stride = case.stride.max(1).max((b.saturating_mul(run_cost) + budget - 1) / budget);
        if op_stride > case.stride.max(1) || eof_stride > case.stride.max(1) {
            ex.class("fault-points-sampled(long-conversation)");
        }
        let stride = eof_stride;

        // 1. end of stream after k bytes
        let eof_points: Vec<usize> = if case.only_eof_at.is_empty() { (0..=b).step_by(stride).collect() } else { case.only_eof_at.iter().copied().filter(|k| *k <= b).collect() };
        if !case.only_eof_at.is_empty() {
            ex.class("multi-packet-request-cut-around-fragment-boundaries");
            ex.nontrivial = true;
        }
        for k in eof_points {
            let mut cc = c.clone();
            cc.fault = Fault::EofAfter(k);
            let o = run_with(&cc, None, false);
            runs += 1;
            let boundary = k >= base.msg_ends[0] && base.msg_ends.contains(&k);
            let after_quit = quit_end.map(|q| k >= q).unwrap_or(false);
            let want_ok = boundary || after_quit;
            match &o.result {
                RunResult::Ok if want_ok => {}
                RunResult::ErrIo { .. } if !want_ok => {}
                RunResult::Panic(p) => {
                    ex.fail(format!("c19-eof-panic|{}", panic_signature(p)), format!("end of stream after {} of {} bytes: {}", k, b, o.result.brief()));
                    return ex;
                }
                other => {
                    ex.fail(
                        if want_ok { "c19-eof-at-boundary-err" } else { "c19-eof-inside-packet-ok" },
                        format!(
                            "end of stream after {} of {} client bytes ({}): run_on returned {}",
                            k,
                            b,
                            if want_ok { "a command boundary after the handshake" } else if k < base.msg_ends[0] { "before the handshake completed" } else { "inside a packet" },
                            other.brief()
                        ),
                    );
                    return ex;
                }
            }
            if !is_prefix(&o.events, &base.events) {
                ex.fail("c19-eof-callbacks", format!("end of stream after {} bytes: callback log is not a prefix of the fault-free log", k));
                return ex;
            }
        }
        if !case.only_eof_at.is_empty() {
            ex.count("faulted_runs", runs);
            return ex;
        }

        // 2. transport faults at every operation (kinds 3.. repeat the one-off and persistent faults
        // with other io::ErrorKinds: UnexpectedEof, Other, BrokenPipe, TimedOut)
        let stride = op_stride;
        for kind in 0..8 {
            // (when sampling, each kind starts at another offset)
            let mut k = if stride > 1 { (kind * 131) % stride } else { 0 };
            while k < n_ops {
                let mut cc = c.clone();
                if kind == 7 && base.ops.get(k).map(|op| op.kind == OpKind::Read).unwrap_or(true) {
                    // (an interrupted read is 2b's)
                    k += stride;
                    continue;
                }
                cc.fault = match kind {
                    0 | 3 | 5 | 7 => Fault::ErrOnce(k),
                    1 | 4 | 6 => Fault::ErrFrom(k),
                    _ => Fault::WriteZero(k),
                };
                cc.fault_kind = match kind {
                    3 | 4 => 1,                       // UnexpectedEof
                    7 => 6,                           // Interrupted (write / flush)
                    5 => 2 + (k % 3) as u8,           // Other / BrokenPipe / TimedOut
                    6 => 2 + ((k + 1) % 3) as u8,
                    _ => 0,
                };
                if (kind == 5 || kind == 6) && base.out.len() > (1 << 24) {
                    // the enumerated 16 MiB conversations are expensive: the first five kinds suffice there
                    k += stride;
                    continue;
                }
                let o = run_with(&cc, None, false);
                runs += 1;
                let what = match kind {
                    0 => "one-off error (ConnectionReset)",
                    1 => "persistent error (ConnectionReset)",
                    2 => "write()->Ok(0)/error",
                    3 => "one-off error (UnexpectedEof)",
                    4 => "persistent error (UnexpectedEof)",
                    5 => "one-off error (Other/BrokenPipe/TimedOut)",
                    7 => "write/flush interrupted once (ErrorKind::Interrupted)",
                    _ => "persistent error (Other/BrokenPipe/TimedOut)",
                };
                let opk = base.ops.get(k).map(|op| format!("{:?}", op.kind)).unwrap_or_default();
                match &o.result {
                    RunResult::ErrIo { .. } => {}
                    RunResult::Ok if kind == 7 => {
                        // retried (as std's write_all does): then nothing may differ from the fault-free
                        // run behind the greeting
                        let skip = crate::wire::split_packets(&base.out).0.first().map(|p| p.start + p.len).unwrap_or(0);
                        if o.events != base.events || o.out.len() != base.out.len() || o.out.get(skip..) != base.out.get(skip..) {
                            ex.fail("c19-eintr-write-retry-differs", format!("{} at operation {} ({}) was retried, but the conversation differs from the fault-free run ({} vs {} bytes sent)", what, k, opk, o.out.len(), base.out.len()));
                            return ex;
                        }
                    }
                    RunResult::Panic(p) if is_drop_unwrap(p) => {
                        // documented: "the program may panic if an I/O error occurs when sending the
                        // end-of-records marker" from Drop; reached here even though the shim
                        // propagated the error with `?`
                        drop_panics += 1;
                        ex.fail(KEY_DROP_PANIC, format!("{} at operation {} ({}): {}", what, k, opk, o.result.brief()));
                    }
                    RunResult::Panic(p) => {
                        ex.fail(format!("c19-fault-panic|{}", panic_signature(p)), format!("{} at operation {} ({}): {}", what, k, opk, o.result.brief()));
                        return ex;
                    }
                    other => {
                        ex.fail("c19-fault-masked", format!("{} at transport operation {} ({}) of {}: run_on returned {}", what, k, opk, n_ops, other.brief()));
                        return ex;
                    }
                }
                if !is_prefix(&o.events, &base.events) {
                    ex.fail("c19-fault-callbacks", format!("{} at operation {}: callback log is not a prefix of the fault-free log", what, k));
                    return ex;
                }
                // (an interrupted write that was retried is no failure: the conversation goes on)
                let retried = kind == 7 && o.result.is_ok();
                if let Some(f) = o.fault_fired_at_op.filter(|_| !retried) {
                    if let Some(bad) = o.event_ops.iter().position(|&at| at > f) {
                        ex.fail("c19-callback-after-fault", format!("{} at operation {}: callback {} started after the failure", what, f, o.events[bad].brief()));
                        return ex;
                    }
                }
                k += stride;
            }
        }

        // 2b. a read interrupted by a signal (ErrorKind::Interrupted): the library may report it or
        // retry it transparently, but it must not act on bytes the client never sent
        let mut k = 0;
        while k < n_ops {
            if base.ops.get(k).map(|op| op.kind == OpKind::Read).unwrap_or(false) {
                let mut cc = c.clone();
                cc.fault = Fault::InterruptedRead(k);
                let o = run_with(&cc, None, false);
                runs += 1;
                match &o.result {
                    RunResult::Panic(p) => {
                        ex.fail(format!("c19-eintr-panic|{}", panic_signature(p)), format!("interrupted read at operation {}: {}", k, o.result.brief()));
                        return ex;
                    }
                    RunResult::Ok => {
                        // retried transparently: everything must be as in the fault-free run
                        // (compared behind the greeting: connection id and salt may differ per connection)
                        let skip = crate::wire::split_packets(&base.out).0.first().map(|p| p.start + p.len).unwrap_or(0);
                        if o.events != base.events || o.out.len() != base.out.len() || o.out.get(skip..) != base.out.get(skip..) {
                            ex.fail("c19-eintr-retry-differs", format!("read at operation {} was interrupted and retried, but the conversation differs from the fault-free run ({} callbacks vs {})", k, o.events.len(), base.events.len()));
                            return ex;
                        }
                    }
                    _ => {}
                }
                if !is_prefix(&o.events, &base.events) {
                    let bad = o.events.iter().zip(base.events.iter().chain(std::iter::repeat(&Event::Close(u32::MAX)))).find(|(a, b)| a != b).map(|(a, _)| a.brief()).unwrap_or_default();
                    ex.fail("c19-eintr-callbacks", format!("interrupted read at operation {}: the shim was shown something the client never sent: {}", k, bad));
                    return ex;
                }
            }
            k += stride;
        }

        // 3. shim errors at every fallible callback
        let n_cb = base.events.iter().filter(|e| !matches!(e, Event::Close(_))).count();
        for k in 0..n_cb {
            let mut cc = c.clone();
            cc.fail_at = Some((k, 4000 + k as u32));
            let o = run_with(&cc, None, false);
            runs += 1;
            match &o.result {
                RunResult::ErrTagged(t) if *t == 4000 + k as u32 => {}
                RunResult::Panic(p) => {
                    ex.fail(format!("c19-shim-error-panic|{}", panic_signature(p)), format!("shim error at callback {}: {}", k, o.result.brief()));
                    return ex;
                }
                other => {
                    ex.fail("c19-shim-error-changed", format!("shim returned its tagged error at callback {}, run_on returned {}", k, other.brief()));
                    return ex;
                }
            }
            let fallible = o.events.iter().filter(|e| !matches!(e, Event::Close(_))).count();
            if fallible != k + 1 {
                ex.fail("c19-callback-after-shim-error", format!("{} fallible callbacks ran although callback {} failed", fallible, k));
                return ex;
            }
        }
        ex.count("faulted_runs", runs);
        ex.count("runs_ending_in_writer_drop_panic", drop_panics);
        ex
    }
}

fn is_prefix(got: &[Event], base: &[Event]) -> bool {
    got.len() <= base.len() && got.iter().zip(base).all(|(a, b)| a == b)
}


/// The conversation over TLS (rustls client embedded in the transport), ended at TLS-level points:
/// (a) the client closes cleanly (close_notify, then end of stream) after its first m messages
/// were answered, for every m: m = 0 (TLS session up, no handshake response yet) is a connection
/// that ends before the handshake completes => Err and no callback; m >= 1 is a close at a
/// command boundary => Ok; (b) the byte stream ends abruptly at sampled positions before the
/// encrypted handshake response was delivered => Err and no callback.
fn exec_tls(c: &Conversation, t: &TlsEnds, ex: &mut Exec) {
    use crate::tlspeer::*;
    use crate::wire::*;
    ex.class("over-tls");
    ex.nontrivial = true;
    let fx = crate::tlsfix::fixtures();
    let caps = match &c.hs.kind {
        HsKind::V41 { caps, .. } => *caps,
        _ => CAP_PROTOCOL_41 | CAP_SSL,
    };
    let mut ssl_req = Vec::new();
    frame_into(&mut ssl_req, &ssl_request(caps, 1 << 24, 0x21), 1);
    let mut messages = Vec::new();
    let mut m0 = Vec::new();
    frame_into(&mut m0, &c.hs.payload(), 2);
    messages.push(m0);
    let mut kinds = vec![ReplyKind::OkOrErr];
    for sc in &c.cmds {
        let mut m = Vec::new();
        frame_into(&mut m, &sc.cmd.payload(), sc.seq);
        messages.push(m);
        kinds.push(sc.cmd.reply_kind());
    }
    let run_tls = |m: usize, fault: Fault, lockstep: bool| {
        let (peer, log) = TlsClientPeer::new(client_config(t.tls13, false, 0), ssl_req.clone(), messages[..m].to_vec(), kinds[..m].to_vec(), lockstep);
        let tr = Transport::new(Vec::new(), Schedule::all_at_once(), fault);
        tr.0.borrow_mut().peer = Some(Box::new(peer));
        let o = run_raw_tls(c, tr, Some(fx.server_plain.clone()));
        (o, log)
    };
    let (base, blog) = run_tls(messages.len(), Fault::None, t.lockstep);
    let mut runs = 1u64;
    if let RunResult::Panic(p) = &base.result {
        ex.fail(format!("c19-tls-panic|{}", panic_signature(p)), format!("fault-free TLS run: {}", base.result.brief()));
        return;
    }
    if !base.result.is_ok() || blog.borrow().tls_error.is_some() {
        ex.fail("c19-tls-baseline", format!("fault-free TLS run returned {} (TLS error: {:?})", base.result.brief(), blog.borrow().tls_error));
        return;
    }
    // (a) clean close after the first m messages
    for m in 0..=messages.len() {
        let (o, log) = run_tls(m, Fault::None, true);
        runs += 1;
        let what = format!("TLS client closes cleanly after {} of {} messages (TLS handshake done: {})", m, messages.len(), log.borrow().handshake_done);
        match &o.result {
            RunResult::Panic(p) => {
                ex.fail(format!("c19-tls-panic|{}", panic_signature(p)), format!("{}: {}", what, o.result.brief()));
                return;
            }
            RunResult::Ok if m == 0 => {
                ex.fail("c19-tls-close-before-handshake-ok", format!("{}: the connection ended before the handshake completed, run_on returned Ok ({} callbacks ran)", what, o.events.len()));
                return;
            }
            RunResult::Ok => {}
            _ if m == 0 => {}
            other => {
                ex.fail("c19-tls-close-at-boundary-err", format!("{}: a close at a command boundary, run_on returned {}", what, other.brief()));
                return;
            }
        }
        if m == 0 && !o.events.is_empty() {
            ex.fail("c19-tls-callback-before-handshake", format!("{}: callback {} ran", what, o.events[0].brief()));
            return;
        }
        if !is_prefix(&o.events, &base.events) {
            ex.fail("c19-tls-callbacks", format!("{}: callback log is not a prefix of the fault-free log", what));
            return;
        }
    }
    // (b) abrupt end of stream before the encrypted handshake response was delivered (lock-step:
    // the client sends nothing beyond it before the reply)
    let (lbase, _) = run_tls(messages.len(), Fault::None, true);
    runs += 1;
    let auth_op = lbase.event_ops.first().copied().unwrap_or(0);
    let delivered = lbase.ops.iter().take(auth_op).filter(|op| op.kind == OpKind::Read).map(|op| op.at + op.n).max().unwrap_or(0);
    if delivered > 0 {
        for pick in &t.picks {
            let k = (*pick as u64 * delivered as u64 >> 32) as usize;
            let (o, _) = run_tls(messages.len(), Fault::EofAfter(k), true);
            runs += 1;
            match &o.result {
                RunResult::ErrIo { .. } => {}
                RunResult::Panic(p) => {
                    ex.fail(format!("c19-tls-panic|{}", panic_signature(p)), format!("end of stream after {} of the {} bytes up to the encrypted handshake response: {}", k, delivered, o.result.brief()));
                    return;
                }
                other => {
                    ex.fail("c19-tls-eof-before-handshake-ok", format!("end of stream after {} of the {} bytes up to the encrypted handshake response: run_on returned {}", k, delivered, other.brief()));
                    return;
                }
            }
            if !o.events.is_empty() {
                ex.fail("c19-tls-callback-before-handshake", format!("end of stream after {} bytes: callback {} ran", k, o.events[0].brief()));
                return;
            }
        }
    }
    // (c) a malformed handshake response inside the TLS session (truncated after k bytes, or with
    // an unterminated user name): an error return, no callback, no panic
    let hs = c.hs.payload();
    for (i, pick) in t.picks.iter().take(4).enumerate() {
        let bad: Vec<u8> = if i == 3 {
            let mut b = hs[..32.min(hs.len())].to_vec();
            b.extend(std::iter::repeat(b'a').take(200));
            b.extend("\u{e9}".repeat(100).as_bytes());
            b
        } else {
            let k = (*pick as u64 * (hs.len().min(36) as u64) >> 32) as usize;
            hs[..k].to_vec()
        };
        let mut m0 = Vec::new();
        frame_into(&mut m0, &bad, 2);
        let (peer, _log) = TlsClientPeer::new(client_config(t.tls13, false, 0), ssl_req.clone(), vec![m0], vec![ReplyKind::OkOrErr], true);
        let tr = Transport::new(Vec::new(), Schedule::all_at_once(), Fault::None);
        tr.0.borrow_mut().peer = Some(Box::new(peer));
        let o = run_raw_tls(c, tr, Some(fx.server_plain.clone()));
        runs += 1;
        match &o.result {
            RunResult::ErrIo { .. } => {}
            RunResult::Panic(p) => {
                ex.fail(format!("c19-tls-panic|{}", panic_signature(p)), format!("malformed handshake response ({} bytes) inside TLS: {}", bad.len(), o.result.brief()));
                return;
            }
            other => {
                ex.fail("c19-tls-malformed-handshake-ok", format!("malformed handshake response ({} bytes) inside TLS: run_on returned {}", bad.len(), other.brief()));
                return;
            }
        }
        if !o.events.is_empty() {
            ex.fail("c19-tls-callback-before-handshake", format!("malformed handshake response inside TLS: callback {} ran", o.events[0].brief()));
            return;
        }
    }
    ex.count("faulted_runs", runs);
}
