//! C10 — statement ids are executable exactly between PREPARE reply and CLOSE.

use crate::conv::*;
use crate::engine::*;
use crate::gen::G;
use crate::shim::*;
use crate::wire::*;
use serde::{Deserialize, Serialize};
use std::collections::HashMap;

pub struct C10;

#[derive(Clone, Debug, Serialize, Deserialize)]
pub enum LOp {
    /// PREPARE answered by the shim with (id, nparams), or rejected
    Prepare { reply: Option<(u32, usize)> },
    Execute {
        id: u32,
        vals: Vec<u32>,
        /// the shim answers this execution with an error of this kind (the statement stays usable:
        /// only the client's CLOSE ends it)
        #[serde(default)]
        err: Option<u16>,
    },
    LongData { id: u32, param: u16, data: Vec<u8> },
    /// long data of `len` pattern bytes (kept symbolic)
    LongPat { id: u32, param: u16, seed: u32, len: usize },
    Close { id: u32 },
    Ping,
}

#[derive(Clone, Debug, Serialize, Deserialize)]
pub struct Case {
    pub ops: Vec<LOp>,
}

const POOL: [u32; 6] = [1, 2, 3, 0, u32::MAX, 77];

fn gen_id(g: &mut G<'_>) -> u32 {
    *g.pick(&POOL)
}

/// reference model: walk the history; returns (expected events after auth, index of the first
/// invalid op if any, flags for classification)
struct ModelOut {
    events: Vec<Event>,
    first_invalid: Option<usize>,
    close_then_exec: bool,
    failed_prepare_then_exec: bool,
    reprepare: bool,
}

fn model(ops: &[LOp]) -> ModelOut {
    let mut live: HashMap<u32, usize> = HashMap::new();
    let mut pending: HashMap<(u32, u16), Vec<u8>> = HashMap::new();
    let mut closed: std::collections::HashSet<u32> = Default::default();
    let mut rejected_last = false;
    let mut out = ModelOut { events: vec![], first_invalid: None, close_then_exec: false, failed_prepare_then_exec: false, reprepare: false };
    for (i, op) in ops.iter().enumerate() {
        match op {
            LOp::Ping => {}
            LOp::Prepare { reply } => {
                out.events.push(Event::Prepare("p".into()));
                match reply {
                    Some((id, n)) => {
                        if live.contains_key(id) {
                            out.reprepare = true;
                        }
                        live.insert(*id, *n);
                        closed.remove(id);
                        pending.retain(|(s, _), _| s != id);
                        rejected_last = false;
                    }
                    None => rejected_last = true,
                }
            }
            LOp::Close { id } => {
                out.events.push(Event::Close(*id));
                if live.remove(id).is_some() {
                    closed.insert(*id);
                }
                pending.retain(|(s, _), _| s != id);
            }
            LOp::LongData { .. } | LOp::LongPat { .. } => {
                let (id, param, data) = match op {
                    LOp::LongData { id, param, data } => (id, param, data.clone()),
                    LOp::LongPat { id, param, seed, len } => (id, param, crate::gen::pattern(*seed, *len)),
                    _ => unreachable!(),
                };
                let data = &data;
                if live.contains_key(id) {
                    pending.entry((*id, *param)).or_default().extend_from_slice(data);
                } else {
                    out.first_invalid = Some(i);
                    if closed.contains(id) {
                        out.close_then_exec = true;
                    }
                    return out;
                }
            }
            LOp::Execute { id, vals, .. } => match live.get(id) {
                Some(n) => {
                    let params: Vec<SeenParam> = (0..*n)
                        .map(|k| {
                            let inner = match pending.remove(&(*id, k as u16)) {
                                Some(b) => Inner::Bytes(b),
                                None => Inner::Int(vals.get(k).copied().unwrap_or(0) as i32 as i64),
                            };
                            SeenParam { coltype: T_LONG, inner, conv: Conv::NotTried, conv_str: None }
                        })
                        .collect();
                    pending.retain(|(s, _), _| s != id);
                    out.events.push(Event::Execute { id: *id, params });
                }
                None => {
                    out.first_invalid = Some(i);
                    if closed.contains(id) {
                        out.close_then_exec = true;
                    }
                    if rejected_last {
                        out.failed_prepare_then_exec = true;
                    }
                    return out;
                }
            },
        }
    }
    out
}

fn to_conv(ops: &[LOp]) -> Conversation {
    // replay the model to know the declared count at each execute
    let mut live: HashMap<u32, usize> = HashMap::new();
    let mut pending: std::collections::HashSet<(u32, u16)> = Default::default();
    let mut cmds = Vec::new();
    let mut ids = Vec::new();
    let mut errs: Vec<Option<u16>> = Vec::new();
    for op in ops {
        match op {
            LOp::Ping => cmds.push(Cmd::Ping),
            LOp::Prepare { reply } => {
                cmds.push(Cmd::Prepare { text: Blob::text("p") });
                ids.push(*reply);
                if let Some((id, n)) = reply {
                    live.insert(*id, *n);
                    pending.retain(|(s, _)| s != id);
                }
            }
            LOp::Close { id } => {
                live.remove(id);
                pending.retain(|(s, _)| s != id);
                cmds.push(Cmd::Close { id: *id });
            }
            LOp::LongData { id, param, data } => {
                if live.contains_key(id) {
                    pending.insert((*id, *param));
                }
                cmds.push(Cmd::LongData { id: *id, param: *param, data: Blob::Lit(data.clone()) })
            }
            LOp::LongPat { id, param, seed, len } => {
                if live.contains_key(id) {
                    pending.insert((*id, *param));
                }
                cmds.push(Cmd::LongData { id: *id, param: *param, data: Blob::Lit(crate::gen::pattern(*seed, *len)) })
            }
            LOp::Execute { id, vals, err } => {
                errs.push(*err);
                let n = live.get(id).copied().unwrap_or(vals.len());
                // as clients do: parameters supplied as long data are not sent inline
                let params: Vec<Param> = (0..n)
                    .map(|k| Param { coltype: T_LONG, unsigned: false, value: if pending.contains(&(*id, k as u16)) { PVal::LongData } else { PVal::Int(vals.get(k).copied().unwrap_or(0) as u64) } })
                    .collect();
                pending.retain(|(s, _)| s != id);
                cmds.push(Cmd::Execute { id: *id, params, send_types: true, flags: 0, iterations: 1 });
            }
        }
    }
    let mut c = Conversation::new(cmds, vec![]);
    c.auto_ids = Some(ids);
    c.auto_errs = errs;
    c
}

impl Prop for C10 {
    type Case = Case;
    fn id(&self) -> &'static str {
        "C10"
    }
    fn canary(&self) -> bool {
        true
    }
    fn rule(&self) -> String {
        "cases = histories of 0-60 operations over PREPARE (shim replies with an id from the pool {1, 2, 3, 0, u32::MAX, 77} and 0-3 declared parameters, or rejects), EXECUTE{id}, SEND_LONG_DATA{id, param, bytes}, CLOSE{id} (live, closed, or never-prepared ids), PING; generated as a valid prefix, optionally one operation on a never-prepared / rejected / closed id, then a tail of valid-looking commands; one enumerated history keeps 17 000 (thorough: 70 000) statements open at once and then uses early, boundary and late ids. One execution in six is answered by the shim with an error (1243, 1213, 1205, 1064, ...): the statement stays usable, only the client's CLOSE ends it. Oracle: reference model live: id -> declared parameter count. Valid histories: the callback log equals the model's, executions show the latest declared parameter count, long data sent before a re-prepare or a close is not visible afterwards. First invalid operation: no callback for it or for anything after it, run_on returns Err. Every CLOSE (also of unknown ids) reaches on_close exactly once and adds zero reply bytes. Non-trivial = close->execute, failed-prepare->execute, or a re-prepare of a live id.".into()
    }
    fn assumptions(&self) -> Vec<String> {
        vec!["executions always bind their types (after a re-prepare the protocol requires it), so stale bound types cannot be observed by a conforming client; stale long data and stale parameter counts are".into()]
    }
    fn cases(&self, tier: Tier) -> u64 {
        tier.pick(600000, 5000000)
    }
    fn fuzz_plan(&self, tier: Tier) -> Vec<(&'static str, u64)> {
        if tier == Tier::Thorough {
            vec![("prop", 150_000)]
        } else {
            vec![]
        }
    }
    fn choice_len(&self) -> usize {
        1024
    }
    fn gen(&self, g: &mut G<'_>, _tier: Tier) -> Case {
        let maxn = if g.chance(1, 6) { 60 } else { 14 };
        let n = g.usize_in(0, maxn);
        let mut ops = Vec::new();
        let mut live: Vec<u32> = Vec::new();
        let mut dead: Vec<u32> = Vec::new();
        // declared parameter count of each live id (long data is only sent to parameters that exist)
        let mut np_of: HashMap<u32, usize> = HashMap::new();
        let invalid_at = if g.chance(1, 2) { Some(g.usize_in(0, n)) } else { None };
        for i in 0..n {
            if Some(i) == invalid_at {
                // one operation on an id that is not live
                let id = if !dead.is_empty() && g.chance(2, 3) { *g.pick(&dead) } else { *g.pick(&[5u32, 6, 1, 2, 0, u32::MAX]) };
                if !live.contains(&id) {
                    if g.chance(2, 3) {
                        ops.push(LOp::Execute { id, vals: vec![g.raw()], err: None });
                    } else {
                        // incl. an empty chunk: the id must be checked whatever the payload
                        let n = *g.pick(&[0usize, 0, 1, 2, 9]);
                        ops.push(LOp::LongData { id, param: g.below(2) as u16, data: g.bytes(n) });
                    }
                    continue;
                }
            }
            match g.weighted(&[4, 5, 2, 3, 1, 1]) {
                0 => {
                    if g.chance(1, 5) {
                        ops.push(LOp::Prepare { reply: None });
                    } else {
                        // sometimes re-prepare a live id
                        let id = if !live.is_empty() && g.chance(1, 4) { *g.pick(&live) } else { gen_id(g) };
                        let np = g.usize_in(0, 3);
                        np_of.insert(id, np);
                        ops.push(LOp::Prepare { reply: Some((id, np)) });
                        if !live.contains(&id) {
                            live.push(id);
                        }
                        dead.retain(|d| *d != id);
                    }
                }
                1 if !live.is_empty() => {
                    let id = *g.pick(&live);
                    let err = if g.chance(1, 6) { Some(*g.pick(&[1243u16, 1213, 1205, 1064, 1105, 1317, 1062, 1146, 1047])) } else { None };
                    ops.push(LOp::Execute { id, vals: (0..3).map(|_| g.raw()).collect(), err });
                }
                2 if !live.is_empty() => {
                    let id = *g.pick(&live);
                    let n = g.usize_in(0, 12);
                    let np = np_of.get(&id).copied().unwrap_or(0);
                    if np > 0 {
                        ops.push(LOp::LongData { id, param: g.below(np as u64) as u16, data: g.bytes(n) });
                    } else {
                        ops.push(LOp::Ping);
                    }
                }
                3 => {
                    if !live.is_empty() && g.chance(3, 4) {
                        let k = g.below(live.len() as u64) as usize;
                        let id = live.remove(k);
                        dead.push(id);
                        ops.push(LOp::Close { id });
                    } else {
                        ops.push(LOp::Close { id: *g.pick(&[9u32, 0, 1, u32::MAX, 12345]) });
                        // closing an id that happens to be live kills it
                        if let Some(LOp::Close { id }) = ops.last() {
                            if let Some(k) = live.iter().position(|x| x == id) {
                                live.remove(k);
                                dead.push(*id);
                            }
                        }
                    }
                }
                4 => ops.push(LOp::Ping),
                _ => ops.push(LOp::Ping),
            }
        }
        Case { ops }
    }
    fn fixed(&self, tier: Tier) -> Vec<Case> {
        // "over several statement ids, of any length": tens of thousands of statements live at once
        // (more than a real server's default max_prepared_stmt_count of 16382), then uses of early,
        // boundary and late ids
        let n: u32 = tier.pick(17_000, 70_000);
        let mut ops: Vec<LOp> = (1..=n).map(|id| LOp::Prepare { reply: Some((id, 1)) }).collect();
        for id in [1u32, 2, 16_381, 16_382, 16_383, 16_384, n - 1, n] {
            ops.push(LOp::LongData { id, param: 0, data: vec![id as u8] });
            ops.push(LOp::Execute { id, vals: vec![id], err: None });
            ops.push(LOp::Execute { id, vals: vec![id + 1], err: None });
        }
        ops.push(LOp::Close { id: 16_383 });
        ops.push(LOp::Prepare { reply: Some((n + 1, 2)) });
        ops.push(LOp::Execute { id: n + 1, vals: vec![5, 6], err: None });
        // "usable between the PREPARE reply and CLOSE", whatever the connection did before: long
        // data that clients streamed and then abandoned (by closing the statement, or because the
        // shim handed the id out again) - more of it in total than the 64 MiB the server advertises
        // as max_allowed_packet - must not count against later statements
        let mut abandon = Vec::new();
        for r in 0..70u32 {
            if r % 2 == 0 {
                abandon.push(LOp::Prepare { reply: Some((100 + r, 1)) });
                abandon.push(LOp::LongPat { id: 100 + r, param: 0, seed: r, len: (1 << 20) + r as usize });
                abandon.push(LOp::Close { id: 100 + r });
            } else {
                abandon.push(LOp::Prepare { reply: Some((7, 1)) });
                abandon.push(LOp::LongPat { id: 7, param: 0, seed: r, len: (1 << 20) - r as usize });
            }
        }
        abandon.push(LOp::Prepare { reply: Some((1000, 2)) });
        abandon.push(LOp::LongData { id: 1000, param: 1, data: b"hello".to_vec() });
        abandon.push(LOp::Execute { id: 1000, vals: vec![1, 2], err: None });
        abandon.push(LOp::Prepare { reply: Some((7, 1)) });
        abandon.push(LOp::LongData { id: 7, param: 0, data: b"x".to_vec() });
        abandon.push(LOp::Execute { id: 7, vals: vec![3], err: None });
        abandon.push(LOp::Close { id: 1000 });
        let mut v = vec![Case { ops }, Case { ops: abandon }];
        if tier == Tier::Thorough {
            // the same at a scale beyond any budget a server might keep per connection: more than
            // 10^9 bytes of long data streamed and abandoned (the shim hands the open id out again),
            // never more than 8 MB of it pending at a time; then an ordinary statement
            let mut big = Vec::new();
            for r in 0..130u32 {
                big.push(LOp::Prepare { reply: Some((7, 1)) });
                big.push(LOp::LongPat { id: 7, param: 0, seed: 1000 + r, len: 8_000_000 + r as usize });
            }
            big.push(LOp::Prepare { reply: Some((7, 1)) });
            big.push(LOp::LongData { id: 7, param: 0, data: b"hello, ".to_vec() });
            big.push(LOp::LongData { id: 7, param: 0, data: b"world".to_vec() });
            big.push(LOp::Execute { id: 7, vals: vec![3], err: None });
            big.push(LOp::Prepare { reply: Some((8, 2)) });
            big.push(LOp::Execute { id: 8, vals: vec![1, 2], err: None });
            v.push(Case { ops: big });
        }
        v
    }
    fn exec(&self, case: &Case) -> Exec {
        let mut ex = Exec::default();
        let m = model(&case.ops);
        ex.nontrivial = m.close_then_exec || m.failed_prepare_then_exec || m.reprepare;
        if m.close_then_exec {
            ex.class("use-after-close");
        }
        if m.failed_prepare_then_exec {
            ex.class("use-after-rejected-prepare");
        }
        if m.reprepare {
            ex.class("re-prepare-live-id");
        }
        ex.class(if m.first_invalid.is_some() { "history-with-invalid-op" } else { "valid-history" });
        let abandoned: usize = case.ops.iter().map(|o| if let LOp::LongPat { len, .. } = o { *len } else { 0 }).sum();
        if abandoned > 64 << 20 {
            ex.class(">64MiB-of-long-data-abandoned-on-the-connection");
        }
        let conv = to_conv(&case.ops);
        let o = run_with(&conv, None, false);
        if let RunResult::Panic(p) = &o.result {
            ex.fail(format!("c10-panic|{}", panic_signature(p)), format!("run_on panicked: {}", o.result.brief()));
            return ex;
        }
        match m.first_invalid {
            None => {
                if !o.result.is_ok() {
                    ex.fail("c10-valid-history-rejected", format!("run_on returned {} for a history in which every id is live when used", o.result.brief()));
                    return ex;
                }
            }
            Some(i) => {
                if !o.result.is_err() {
                    ex.fail("c10-invalid-id-tolerated", format!("operation {} ({:?}) uses an id that is not live, but run_on returned {}", i, case.ops[i], o.result.brief()));
                }
            }
        }
        let got: Vec<&Event> = o.events.iter().skip(1).collect();
        if got.len() != m.events.len() {
            ex.fail(
                "c10-callbacks-differ",
                format!(
                    "shim saw {} callbacks, model expects {}{}: got [{}]",
                    got.len(),
                    m.events.len(),
                    m.first_invalid.map(|i| format!(" (connection must end at operation {})", i)).unwrap_or_default(),
                    got.iter().map(|e| e.brief()).collect::<Vec<_>>().join(", ")
                ),
            );
            return ex;
        }
        for (k, (g, w)) in got.iter().zip(&m.events).enumerate() {
            if *g != w {
                ex.fail("c10-callback-differs", format!("callback {}: got {:?}, model expects {:?}", k, g, w));
                return ex;
            }
        }
        // replies: CLOSE / LONG_DATA add zero bytes: decode strictly
        let upto = m.first_invalid.unwrap_or(conv.cmds.len());
        let kinds: Vec<ReplyKind> = conv.cmds.iter().take(upto).map(|sc| sc.cmd.reply_kind()).collect();
        let d = decode_output(&o.out, &kinds);
        if let Some(p) = &d.problem {
            ex.fail("c10-nonconformant", format!("client decoder rejects the output: {}", p));
        } else if m.first_invalid.is_none() && (d.stray_msgs != 0 || d.trailing_bytes != 0) {
            ex.fail("c10-stray-output", format!("{} stray packets after the last expected reply (a command that expects no reply got one?)", d.stray_msgs));
        }
        ex
    }
}
