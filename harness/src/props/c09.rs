//! C09 — column metadata reaches the client exactly as the shim declared it.

use crate::conv::*;
use crate::engine::*;
use crate::gen::G;
use crate::gens::*;
use crate::model::*;
use crate::shim::*;
use crate::vals::*;
use crate::wire::*;
use mysql_common::packets::Column as MyColumn;
use mysql_common::proto::MyDeserialize;
use serde::{Deserialize, Serialize};

pub struct C09;

#[derive(Clone, Debug, Serialize, Deserialize)]
pub enum NameSpec {
    Lit(String),
    /// printable pattern of `len` bytes
    Pat { seed: u32, len: usize },
}

impl NameSpec {
    fn get(&self) -> String {
        match self {
            NameSpec::Lit(s) => s.clone(),
            NameSpec::Pat { seed, len } => big_str(*seed, *len),
        }
    }
    fn len(&self) -> usize {
        match self {
            NameSpec::Lit(s) => s.len(),
            NameSpec::Pat { len, .. } => *len,
        }
    }
}

#[derive(Clone, Debug, Serialize, Deserialize)]
pub struct ColGen {
    pub table: NameSpec,
    pub name: NameSpec,
    pub coltype: u8,
    pub flags: u16,
}

#[derive(Clone, Debug, Serialize, Deserialize)]
pub enum Site {
    TextHeader,
    BinHeader,
    Prepare { id: u32, params: Vec<ColGen> },
    /// `n` earlier PREPAREs (ids 1..=n, left open) on the same connection, then the PREPARE under test
    PrepareAfterMany { n: u32, id: u32, params: Vec<ColGen> },
    /// a sequence of PREPAREs whose replies draw their ids from a small pool, so that the shim
    /// hands out an id that is still open (or was closed: `close_before`) for another statement
    /// with other parameter and column lists; every reply is checked.  `Case::cols` is unused.
    PrepareSeq { replies: Vec<SeqReply> },
    /// one reply made of several resultsets whose column lists are prefixes (of the given lengths)
    /// of `Case::cols`, handed to the library as slices of one allocation (a shim that keeps
    /// `all: Vec<Column>` and answers with `&all[..k]`)
    PrefixChain { lens: Vec<usize>, bin: bool },
}

#[derive(Clone, Debug, Serialize, Deserialize)]
pub struct SeqReply {
    pub id: u32,
    pub params: Vec<ColGen>,
    pub cols: Vec<ColGen>,
    /// COM_STMT_CLOSE for this id is sent before the PREPARE
    pub close_before: bool,
    /// long data for parameter 0 and/or an execution follow the reply (state for the next reply to trip over)
    pub long_data_after: bool,
    pub exec_after: bool,
}

#[derive(Clone, Debug, Serialize, Deserialize)]
pub struct Case {
    pub cols: Vec<ColGen>,
    pub site: Site,
}

fn gen_namespec(g: &mut G<'_>, cheap: bool) -> NameSpec {
    if cheap {
        return NameSpec::Lit(gen_name(g));
    }
    match g.weighted(&[8, 3, 2, 1]) {
        0 => NameSpec::Lit(gen_name(g)),
        1 => NameSpec::Pat { seed: g.raw(), len: *g.pick(&[249usize, 250, 251, 252, 253, 255, 256, 300]) },
        2 => NameSpec::Lit(gen_string(g, false)),
        _ => NameSpec::Pat { seed: g.raw(), len: *g.pick(&[65_534usize, 65_535, 65_536, 65_537, 70_000]) },
    }
}

fn gen_colgen(g: &mut G<'_>, cheap: bool) -> ColGen {
    let flags = match g.weighted(&[3, 3, 4]) {
        0 => 0,
        1 => *g.pick(&[1u16, 32, 33, 128, 4096, 0x8000, 0xffff, 0x00ff, 0xff00]),
        _ => g.raw() as u16,
    };
    ColGen { table: gen_namespec(g, cheap), name: gen_namespec(g, cheap), coltype: *g.pick(&ALL_COLTYPES), flags }
}

fn gen_collist(g: &mut G<'_>, allow_zero: bool) -> Vec<ColGen> {
    let n = match g.weighted(&[if allow_zero { 1 } else { 0 }, 6, 3, 2, 1]) {
        0 => 0,
        1 => g.usize_in(1, 6),
        2 => g.usize_in(7, 60),
        3 => *g.pick(&[249usize, 250, 251, 252, 253, 255, 256, 257, 300]),
        _ => *g.pick(&[600usize, 1000, 1023]),
    };
    let mut v: Vec<ColGen> = (0..n).map(|_| gen_colgen(g, n > 20)).collect();
    // descriptors that repeat themselves: a copy of an earlier column, the same name under another
    // type, a column named like its table, a name cut out of the wire image of its neighbour's (length-prefix tail + name)
    if n >= 2 && g.chance(1, 6) {
        let j = g.usize_in(1, n - 1);
        let i = g.usize_in(0, j - 1);
        match g.below(6) {
            4 | 5 => {
                // a name cut out of the *wire image* of its neighbour: the earlier column's table (or
                // name) is long enough for a 3-byte length prefix whose two length bytes are ASCII,
                // the later one's is that encoding from its 2nd, 3rd or 4th byte on - i.e. the tail
                // of the length prefix followed by the whole earlier name, or the name less its
                // first byte.  (What a cache comparing encoded bytes at a fixed offset would confuse.)
                let i = if g.chance(2, 3) { j - 1 } else { i };
                let len = ((g.usize_in(1, 0x7f)) << 8) | g.usize_in(0, 0x7f);
                let t1 = NameSpec::Pat { seed: g.raw(), len }.get();
                let len = t1.len();
                let mut wire = vec![0xfcu8, (len & 0xff) as u8, (len >> 8) as u8];
                wire.extend_from_slice(t1.as_bytes());
                let k = g.usize_in(1, 3);
                if let Ok(t2) = String::from_utf8(wire[k..].to_vec()) {
                    let same_rest = g.coin();
                    if g.chance(3, 4) {
                        v[i].table = NameSpec::Lit(t1);
                        v[j].table = NameSpec::Lit(t2);
                        if same_rest { v[j].name = v[i].name.clone(); }
                    } else {
                        v[i].name = NameSpec::Lit(t1);
                        v[j].name = NameSpec::Lit(t2);
                        if same_rest { v[j].table = v[i].table.clone(); }
                    }
                    if same_rest {
                        v[j].coltype = v[i].coltype;
                        v[j].flags = v[i].flags;
                    }
                }
            }
            0 => v[j] = v[i].clone(),
            1 => v[j].name = v[i].name.clone(),
            2 => v[j].table = v[j].name.clone(),
            _ => {
                // two columns whose table and name read the same once joined - ("a.b", "c") and
                // ("a", "b.c") - with the same type and flags
                let sep = *g.pick(&[".", ".", "", "\u{0}", "`", "/"]);
                let parts: Vec<String> = (0..3).map(|_| { let n = g.usize_in(0, 3); (0..n).map(|_| *g.pick(&['a', 'b', 't', '1', 'é'])).collect() }).collect();
                v[i].table = NameSpec::Lit(format!("{}{}{}", parts[0], sep, parts[1]));
                v[i].name = NameSpec::Lit(parts[2].clone());
                v[j].table = NameSpec::Lit(parts[0].clone());
                v[j].name = NameSpec::Lit(format!("{}{}{}", parts[1], sep, parts[2]));
                v[j].coltype = v[i].coltype;
                v[j].flags = v[i].flags;
            }
        }
    }
    v
}

fn spec(c: &ColGen) -> ColSpec {
    ColSpec { table: c.table.get(), name: c.name.get(), coltype: c.coltype, flags: c.flags }
}

/// second opinion: mysql_common's own column-definition parser on the same packet
fn second_opinion(d: &Decoded, r: &Response, want: &[ColSpec]) -> Result<(), String> {
    // the column definitions are the messages that parse as definitions: walk the response's messages
    let mut defs = Vec::new();
    for m in &d.msgs[r.first_msg..r.first_msg + r.n_msgs] {
        if m.payload.len() > 4 && m.payload[0] == 3 && &m.payload[1..4] == b"def" {
            defs.push(&m.payload);
        }
    }
    if defs.len() < want.len() {
        return Err(format!("only {} definition packets found for {} columns", defs.len(), want.len()));
    }
    // the last `want.len()` definitions are the result columns (prepare replies list params first)
    let defs = &defs[defs.len() - want.len()..];
    for (i, (p, w)) in defs.iter().zip(want).enumerate() {
        let mut buf = mysql_common::io::ParseBuf(&p[..]);
        let col = MyColumn::deserialize((), &mut buf).map_err(|e| format!("mysql_common rejects column definition {}: {}", i, e))?;
        if col.table_ref() != w.table.as_bytes() || col.name_ref() != w.name.as_bytes() {
            return Err(format!("mysql_common reads other names for column {}", i));
        }
        if col.column_type() as u8 != w.coltype {
            return Err(format!("mysql_common reads type {} for column {} (declared {})", col.column_type() as u8, i, w.coltype));
        }
        if col.flags().bits() != w.flags {
            return Err(format!("mysql_common reads flags {:#x} for column {} (declared {:#x})", col.flags().bits(), i, w.flags));
        }
    }
    Ok(())
}

impl Prop for C09 {
    type Case = Case;
    fn id(&self) -> &'static str {
        "C09"
    }
    fn canary(&self) -> bool {
        true
    }
    fn rule(&self) -> String {
        "cases = a list of 0-1023 column descriptors (table/column names of 0 to 70000 bytes biased to 249-256 and 65534-65537, non-ASCII UTF-8, plus enumerated ~16 MiB names that make one definition as large as, or larger than, a wire packet; every ColumnType variant; flag words from all 16 bits) used as a text resultset header, a binary resultset header, or a PREPARE reply (arbitrary u32 statement id, independent parameter and column lists); one case in eight is one reply of 2-4 resultsets whose column lists are prefixes of one list (the empty prefix included: a column-less resultset between others) and reach the library as slices of one allocation; one list in six repeats itself (a copied descriptor, a shared name, joined-name collisions, a table/column name that is the tail of the length-encoded wire image of the neighbouring descriptor's name of 256-32639 bytes); one case in six is a sequence of 2-6 PREPAREs whose replies take their ids from a pool of three, so that an id that is still open (possibly with pending long data or after an execution) or was just closed is handed out again with other parameter / column lists, and every reply is checked. Oracle: decoded count and per column table, name, type, flags in order equal the declared ones; PREPARE_OK id / num_params / num_columns equal; mysql_common's Column parser agrees. Non-trivial = > 250 columns, or a name > 250 bytes, or flags with >= 3 bits.".into()
    }
    fn cases(&self, tier: Tier) -> u64 {
        tier.pick(60000, 600000)
    }
    fn fuzz_plan(&self, tier: Tier) -> Vec<(&'static str, u64)> {
        if tier == Tier::Thorough {
            vec![("prop", 60000_u64)]
        } else {
            vec![]
        }
    }
    fn choice_len(&self) -> usize {
        12_000
    }
    fn gen(&self, g: &mut G<'_>, _tier: Tier) -> Case {
        if g.chance(1, 6) {
            let pool = [*g.pick(&[1u32, 0, 7, u32::MAX]), 2, 3];
            let n = g.usize_in(2, 6);
            let small = |g: &mut G<'_>| -> Vec<ColGen> {
                let k = *g.pick(&[0usize, 0, 1, 1, 2, 3, 5]);
                (0..k).map(|_| gen_colgen(g, true)).collect()
            };
            let replies = (0..n)
                .map(|_| SeqReply { id: if g.chance(2, 3) { pool[0] } else { *g.pick(&pool) }, params: small(g), cols: small(g), close_before: g.chance(1, 4), long_data_after: g.chance(1, 4), exec_after: g.chance(1, 4) })
                .collect();
            return Case { cols: vec![], site: Site::PrepareSeq { replies } };
        }
        if g.chance(1, 8) {
            let n = g.usize_in(2, 8);
            let cols: Vec<ColGen> = (0..n).map(|_| gen_colgen(g, true)).collect();
            let k = g.usize_in(2, 4);
            // (the empty prefix too: a resultset without columns between ones with columns)
            let lens = (0..k).map(|_| if g.chance(1, 5) { 0 } else { g.usize_in(1, n) }).collect();
            return Case { cols, site: Site::PrefixChain { lens, bin: g.coin() } };
        }
        let site = match g.below(3) {
            0 => Site::TextHeader,
            1 => Site::BinHeader,
            _ => {
                let id = match g.below(3) {
                    0 => g.below(10) as u32,
                    1 => *g.pick(&[0u32, u32::MAX, 1 << 31, 0x0100_0000, 65_536]),
                    _ => g.raw(),
                };
                Site::Prepare { id, params: gen_collist(g, true) }
            }
        };
        let allow_zero = matches!(site, Site::Prepare { .. });
        Case { cols: gen_collist(g, allow_zero), site }
    }
    fn fixed(&self, tier: Tier) -> Vec<Case> {
        // definitions around and beyond one wire packet (2^24-1 bytes): definition size is
        // 20 + lenenc(table) + lenenc(name) bytes, i.e. 1 + 3 + (4 + name) + 20 for a 3-byte table
        let mut v = Vec::new();
        let base = 20 + 1 + 3 + 4; // everything but the name bytes
        let lens: Vec<usize> = match tier {
            Tier::Quick => vec![MAX_PAYLOAD - base, MAX_PAYLOAD - base + 1],
            Tier::Thorough => vec![MAX_PAYLOAD - base - 1, MAX_PAYLOAD - base, MAX_PAYLOAD - base + 1, MAX_PAYLOAD + 5, 2 * MAX_PAYLOAD - base + 3],
        };
        for (i, len) in lens.into_iter().enumerate() {
            let big = ColGen { table: NameSpec::Lit("tbl".into()), name: NameSpec::Pat { seed: i as u32 + 1, len }, coltype: T_LONG, flags: 0x1021 };
            let small = ColGen { table: NameSpec::Lit("t".into()), name: NameSpec::Lit("after".into()), coltype: T_VAR_STRING, flags: 1 };
            v.push(Case { cols: vec![small.clone(), big.clone(), small.clone()], site: if i % 2 == 0 { Site::TextHeader } else { Site::BinHeader } });
            if tier == Tier::Thorough || i == 1 {
                v.push(Case { cols: vec![small.clone()], site: Site::Prepare { id: 7, params: vec![big.clone(), small.clone()] } });
            }
        }
        // "all statement ids": a reply on a connection that already has many statements open
        let small = ColGen { table: NameSpec::Lit("t".into()), name: NameSpec::Lit("c".into()), coltype: T_VAR_STRING, flags: 1 };
        for &n in &[16_381u32, 16_382, 16_383, 20_000] {
            if tier == Tier::Quick && n == 16_381 {
                continue;
            }
            v.push(Case { cols: vec![small.clone(), small.clone()], site: Site::PrepareAfterMany { n, id: n + 7, params: vec![small.clone()] } });
        }
        v
    }
    fn exec(&self, case: &Case) -> Exec {
        let mut ex = Exec::default();
        let cols: Vec<ColSpec> = case.cols.iter().map(spec).collect();
        if let Site::PrepareSeq { replies } = &case.site {
            exec_seq(replies, &mut ex);
            return ex;
        }
        if let Site::PrefixChain { lens, bin } = &case.site {
            ex.class("site:chain-of-resultsets-over-prefixes-of-one-column-list");
            if lens.iter().any(|&k| k == 0) {
                ex.class("chain-with-a-column-less-resultset-between-others");
            }
            ex.nontrivial = true;
            let all: Vec<ColSpec> = case.cols.iter().map(spec).collect();
            let n = lens.len();
            let steps: Vec<Step> = lens
                .iter()
                .enumerate()
                .map(|(i, &k)| Step::Set { cols: all[..k.min(all.len())].to_vec(), rows: vec![], end: if i + 1 == n { SetEnd::Finish } else { SetEnd::FinishOne } })
                .collect();
            let prog = Program { steps };
            let (conv, idx) = if *bin {
                (
                    Conversation::new(
                        vec![Cmd::Prepare { text: Blob::text("p") }, Cmd::Execute { id: 9, params: vec![], send_types: false, flags: 0, iterations: 1 }, Cmd::Ping],
                        vec![Action::Prepare(PrepProg::Reply { id: 9, params: vec![], cols: vec![] }), Action::Result(prog)],
                    ),
                    1,
                )
            } else {
                (Conversation::new(vec![Cmd::Query { text: Blob::text("q") }, Cmd::Ping], vec![Action::Result(prog)]), 0)
            };
            let o = run_with(&conv, None, false);
            if let RunResult::Panic(p) = &o.result {
                ex.fail(format!("c09-panic|{}", panic_signature(p)), format!("run_on panicked: {}", o.result.brief()));
                return ex;
            }
            if !o.result.is_ok() {
                ex.fail("c09-run-result", format!("run_on returned {}", o.result.brief()));
                return ex;
            }
            let kinds: Vec<ReplyKind> = conv.cmds.iter().map(|sc| sc.cmd.reply_kind()).collect();
            let d = decode_output(&o.out, &kinds);
            if let Some(p) = &d.problem {
                ex.fail("c09-nonconformant", format!("client decoder rejects the output: {}", p));
                return ex;
            }
            let exps = expectations(&conv);
            if let Err(m) = check_reply(&exps[idx], &d.replies[idx], true) {
                ex.fail("c09-metadata-differs", m.chars().take(500).collect::<String>());
            }
            return ex;
        }
        let all: Vec<&ColGen> = match &case.site {
            Site::Prepare { params, .. } | Site::PrepareAfterMany { params, .. } => case.cols.iter().chain(params.iter()).collect(),
            _ => case.cols.iter().collect(),
        };
        if all.len() > 250 {
            ex.nontrivial = true;
            ex.class("columns>250");
        }
        if all.iter().any(|c| c.name.len() > 250 || c.table.len() > 250) {
            ex.nontrivial = true;
            ex.class("name>250");
        }
        if all.iter().any(|c| c.name.len() > 65_535 || c.table.len() > 65_535) {
            ex.class("name>65535");
        }
        if all.iter().any(|c| c.name.len() + c.table.len() > MAX_PAYLOAD - 40) {
            ex.class("definition>=one-wire-packet");
        }
        if all.iter().any(|c| c.flags.count_ones() >= 3) {
            ex.nontrivial = true;
        }
        let (conv, idx) = match &case.site {
            Site::TextHeader => {
                ex.class("site:text-header");
                (Conversation::new(vec![Cmd::Query { text: Blob::text("q") }, Cmd::Ping], vec![Action::Result(Program { steps: vec![Step::Set { cols: cols.clone(), rows: vec![], end: SetEnd::Finish }] })]), 0)
            }
            Site::BinHeader => {
                ex.class("site:binary-header");
                (
                    Conversation::new(
                        vec![Cmd::Prepare { text: Blob::text("p") }, Cmd::Execute { id: 9, params: vec![], send_types: false, flags: 0, iterations: 1 }, Cmd::Ping],
                        vec![
                            Action::Prepare(PrepProg::Reply { id: 9, params: vec![], cols: vec![] }),
                            Action::Result(Program { steps: vec![Step::Set { cols: cols.clone(), rows: vec![], end: SetEnd::Finish }] }),
                        ],
                    ),
                    1,
                )
            }
            Site::PrepareAfterMany { n, id, params } => {
                ex.class("site:prepare-reply-after-many-open-statements");
                ex.nontrivial = true;
                let mut cmds = Vec::new();
                let mut actions = Vec::new();
                for k in 1..=*n {
                    cmds.push(Cmd::Prepare { text: Blob::text("p") });
                    actions.push(Action::Prepare(PrepProg::Reply { id: k, params: vec![], cols: vec![] }));
                }
                cmds.push(Cmd::Prepare { text: Blob::text("the one") });
                actions.push(Action::Prepare(PrepProg::Reply { id: *id, params: params.iter().map(spec).collect(), cols: cols.clone() }));
                cmds.push(Cmd::Ping);
                (Conversation::new(cmds, actions), *n as usize)
            }
            Site::PrepareSeq { .. } | Site::PrefixChain { .. } => unreachable!(),
            Site::Prepare { id, params } => {
                ex.class("site:prepare-reply");
                (
                    Conversation::new(
                        vec![Cmd::Prepare { text: Blob::text("p") }, Cmd::Ping],
                        vec![Action::Prepare(PrepProg::Reply { id: *id, params: params.iter().map(spec).collect(), cols: cols.clone() })],
                    ),
                    0,
                )
            }
        };
        let o = run_with(&conv, None, false);
        if let RunResult::Panic(p) = &o.result {
            ex.fail(format!("c09-panic|{}", panic_signature(p)), format!("run_on panicked: {}", o.result.brief()));
            return ex;
        }
        if !o.result.is_ok() {
            ex.fail("c09-run-result", format!("run_on returned {}", o.result.brief()));
            return ex;
        }
        let kinds: Vec<ReplyKind> = conv.cmds.iter().map(|sc| sc.cmd.reply_kind()).collect();
        let d = decode_output(&o.out, &kinds);
        if let Some(p) = &d.problem {
            ex.fail("c09-nonconformant", format!("client decoder rejects the output: {}", p));
            return ex;
        }
        let exps = expectations(&conv);
        if let Err(m) = check_reply(&exps[idx], &d.replies[idx], true) {
            ex.fail("c09-metadata-differs", m.chars().take(500).collect::<String>());
            return ex;
        }
        // mysql_common's TryFrom<u8> has no arm for 14 (NEWDATE, "internal to MySQL"): its parser cannot
        // give an opinion on such a definition
        if cols.iter().any(|c| c.coltype == 14) {
            ex.class("second-opinion-skipped(type 14)");
        } else if let Err(m) = second_opinion(&d, &d.replies[idx], &cols) {
            ex.fail("c09-second-opinion", m);
        }
        ex
    }
}


/// `Site::PrepareSeq`: every PREPARE reply must carry its own id, counts and definitions, whatever
/// the statement table held under that id before.
fn exec_seq(replies: &[SeqReply], ex: &mut Exec) {
    ex.class("site:prepare-replies-with-recurring-ids");
    let mut cmds = Vec::new();
    let mut actions = Vec::new();
    let mut idx = Vec::new();
    let mut live: std::collections::HashMap<u32, usize> = Default::default();
    let mut reused_live_other_count = false;
    for r in replies {
        if r.close_before {
            cmds.push(Cmd::Close { id: r.id });
            live.remove(&r.id);
        }
        if let Some(&n) = live.get(&r.id) {
            ex.class("id-of-an-open-statement-handed-out-again");
            if n != r.params.len() {
                reused_live_other_count = true;
            }
        }
        idx.push(cmds.len());
        cmds.push(Cmd::Prepare { text: Blob::text("p") });
        actions.push(Action::Prepare(PrepProg::Reply { id: r.id, params: r.params.iter().map(spec).collect(), cols: r.cols.iter().map(spec).collect() }));
        live.insert(r.id, r.params.len());
        if r.long_data_after && !r.params.is_empty() {
            cmds.push(Cmd::LongData { id: r.id, param: 0, data: Blob::text("pending") });
        }
        if r.exec_after {
            // (a parameter that was streamed is not sent inline, as clients do)
            let params: Vec<Param> = r
                .params
                .iter()
                .enumerate()
                .map(|(i, _)| if i == 0 && r.long_data_after { Param { coltype: T_BLOB, unsigned: false, value: PVal::LongData } } else { Param { coltype: T_LONG, unsigned: false, value: PVal::Int(5) } })
                .collect();
            cmds.push(Cmd::Execute { id: r.id, params, send_types: true, flags: 0, iterations: 1 });
            actions.push(Action::Result(Program::completed(0, 0)));
        }
    }
    cmds.push(Cmd::Ping);
    if reused_live_other_count {
        ex.nontrivial = true;
        ex.class("open-id-reused-with-another-parameter-count");
    }
    let conv = Conversation::new(cmds, actions);
    let o = run_with(&conv, None, false);
    if let RunResult::Panic(p) = &o.result {
        ex.fail(format!("c09-panic|{}", panic_signature(p)), format!("run_on panicked: {}", o.result.brief()));
        return;
    }
    if !o.result.is_ok() {
        ex.fail("c09-run-result", format!("run_on returned {}", o.result.brief()));
        return;
    }
    let kinds: Vec<ReplyKind> = conv.cmds.iter().map(|sc| sc.cmd.reply_kind()).collect();
    let d = decode_output(&o.out, &kinds);
    if let Some(p) = &d.problem {
        ex.fail("c09-nonconformant", format!("client decoder rejects the output: {}", p));
        return;
    }
    let exps = expectations(&conv);
    for (k, &i) in idx.iter().enumerate() {
        if let Err(m) = check_reply(&exps[i], &d.replies[i], true) {
            ex.fail("c09-metadata-differs", format!("PREPARE number {} of the connection (id {}): {}", k, replies[k].id, m.chars().take(400).collect::<String>()));
            return;
        }
    }
}
