//! C11 — greeting is well-formed and no command is served before the shim authenticates.

use crate::conv::*;
use crate::engine::*;
use crate::gen::G;
use crate::gens::*;
use crate::shim::*;
use crate::transport::*;
use crate::wire::*;
use mysql_common::packets::HandshakePacket;
use mysql_common::proto::MyDeserialize;
use serde::{Deserialize, Serialize};

pub struct C11;

#[derive(Clone, Debug, Serialize, Deserialize)]
pub struct Case {
    pub conv: Conversation,
    pub tls_configured: bool,
}

fn gen_user(g: &mut G<'_>) -> Vec<u8> {
    match g.weighted(&[3, 3, 2, 2, 1]) {
        0 => b"root".to_vec(),
        1 => {
            let n = g.usize_in(0, 16);
            (0..n).map(|_| 1 + g.below(255) as u8).collect()
        }
        2 => vec![],
        3 => g.pick(&[&b"\xff\xfe"[..], b"\xc3\x28", "ünï".as_bytes(), b" ", b"a b", b"\x01"]).to_vec(),
        _ => {
            let n = g.usize_in(200, 600);
            (0..n).map(|i| 1 + ((i * 7 + 3) % 255) as u8).collect()
        }
    }
}

impl Prop for C11 {
    type Case = Case;
    fn id(&self) -> &'static str {
        "C11"
    }
    fn canary(&self) -> bool {
        true
    }
    fn rule(&self) -> String {
        "cases = one handshake response in 4.1 or 3.20 layout with a random 32-bit (16-bit) capability mask, a user name of arbitrary non-NUL bytes (empty, non-UTF-8, up to 600 bytes, occasionally ~64 KiB), arbitrary reserved bytes (all zero, MariaDB-style extended capabilities in the last four, or 23 random bytes), random trailing auth/db/plugin bytes (occasionally ~64 KiB, up to 200 KB, or enough to make the response a multi-fragment message of >= 2^24-1 bytes) and a response sequence id (1 mostly, else 0-255), against a shim with or without a TLS configuration (the SSL bit is only requested when TLS is *not* configured; the configured case is C18) that accepts or rejects with a tagged error, with 0-5 commands already pipelined behind the handshake, under a generated chunk schedule. Oracle: first server packet parses as a protocol-10 greeting (own decoder + mysql_common::HandshakePacket) with PROTOCOL_41 set, the SSL bit set iff TLS is configured, sequence id 0 and flushed before the first read; after_authentication is called exactly once, before any command callback, with exactly the user name sent; accept => OK with id+1 and all pipelined commands served; reject => ERR 1045/28000, run_on returns the very error the shim returned and no command callback runs; SSL requested without configuration => Err and no after_authentication. 1 case in 12 has the peer go away instead (all transport operations fail from the k-th on, k <= 6): nothing is asked of that connection here, but the one served next on the same thread has to start with its greeting like any other. Non-trivial = non-default mask/user/layout, or pipelined commands with a rejection, or a peer that went away.".into()
    }
    fn cases(&self, tier: Tier) -> u64 {
        tier.pick(400000, 3000000)
    }
    fn fuzz_plan(&self, tier: Tier) -> Vec<(&'static str, u64)> {
        if tier == Tier::Thorough {
            vec![("prop", 150_000)]
        } else {
            vec![]
        }
    }
    fn choice_len(&self) -> usize {
        2048
    }
    fn gen(&self, g: &mut G<'_>, _tier: Tier) -> Case {
        let tls_configured = g.chance(1, 3);
        let opts = ConvOpts { max_cmds: 5, max_rows: 2, sentinels: false, default_init_sometimes: false, quit_sometimes: true };
        let mut conv = if g.chance(1, 3) { Conversation::new(vec![], vec![]) } else { gen_conv(g, &opts) };
        let user = gen_user(g);
        let ntail = if g.coin() { g.usize_in(0, 60) } else { 0 };
        let tail = g.bytes(ntail);
        let v41 = g.chance(4, 5);
        let kind = if v41 {
            let mut caps = match g.weighted(&[3, 3, 4]) {
                0 => CAP_LONG_PASSWORD | CAP_PROTOCOL_41 | CAP_SECURE_CONNECTION,
                1 => 0x003f_a685,
                _ => g.raw(),
            };
            // the SSL bit only when TLS is not configured (the configured case belongs to C18)
            if tls_configured || !g.chance(1, 6) {
                caps &= !CAP_SSL;
            }
            HsKind::V41 { caps: caps | CAP_PROTOCOL_41, max_packet: g.raw(), charset: g.byte(), user, tail }
        } else {
            let mut caps = (g.raw() as u16) & !(CAP_PROTOCOL_41 as u16);
            if tls_configured || !g.chance(1, 6) {
                caps &= !(CAP_SSL as u16);
            }
            HsKind::V320 { caps, max_packet: g.raw() & 0xff_ffff, user, tail }
        };
        // long user names / trailing data: up to and beyond the 64 KiB and 16 MiB packet-size classes
        let (user_pad, tail_pad) = match g.weighted(&[980, 8, 8, 4]) {
            0 => (0, 0),
            1 => (0, g.usize_in(65_300, 65_700)),
            2 => (g.usize_in(65_300, 65_700), 0),
            _ => (g.usize_in(1000, 40_000), g.usize_in(30_000, 200_000)),
        };
        // the reserved bytes of the 4.1 layout are the client's to fill (MariaDB connectors do)
        let reserved = match g.weighted(&[4, 2, 2]) {
            0 => vec![],
            1 => g.bytes(4),
            _ => g.bytes(23),
        };
        conv.hs = Handshake { kind, seq: if g.chance(3, 4) { 1 } else { g.byte() }, user_pad, tail_pad, reserved };
        if g.chance(1, 3) {
            conv.reject_auth = Some(1000 + g.below(1000) as u32);
        }
        let (len, ends, _) = client_stream_meta(&conv);
        conv.sched = gen_schedule(g, len, &ends);
        if g.chance(1, 12) {
            // the peer goes away while the connection is being set up (or shortly after): every
            // transport operation from the k-th on fails.  What this connection does is then C04's and
            // C19's business; here it is the *next* connection that has to get its greeting.
            conv.fault = Fault::ErrFrom(g.usize_in(0, 6));
            conv.fault_kind = g.below(5) as u8;
        }
        Case { conv, tls_configured }
    }
    fn fixed(&self, _tier: Tier) -> Vec<Case> {
        // handshake responses at the packet-size class edges: 64 KiB and a multi-fragment one
        let mut v = Vec::new();
        for (i, &(user_pad, tail_pad)) in [(0usize, 65_535usize - 40), (0, 65_536), (65_536, 0), (0, MAX_PAYLOAD - 45), (0, MAX_PAYLOAD + 1000)].iter().enumerate() {
            for reject in [false, true] {
                let mut conv = Conversation::new(vec![Cmd::Ping, Cmd::Query { text: Blob::text("SELECT 1") }], vec![Action::Result(Program::completed(1, 1))]);
                conv.hs = Handshake::default_user("longhs");
                conv.hs.user_pad = user_pad;
                conv.hs.tail_pad = tail_pad;
                if i % 2 == 1 {
                    conv.hs.kind = HsKind::V320 { caps: 0x0005, max_packet: 0xff_ffff, user: b"old".to_vec(), tail: vec![0] };
                }
                if reject {
                    conv.reject_auth = Some(1234);
                }
                conv.sched = Schedule::fixed(1 << 20);
                v.push(Case { conv, tls_configured: false });
            }
        }
        v
    }
    fn exec(&self, case: &Case) -> Exec {
        let mut ex = Exec::default();
        let c = &case.conv;
        let tls = if case.tls_configured { Some(crate::tlsfix::fixtures().server_plain.clone()) } else { None };
        let o = run_with(c, tls, false);
        let (wants_ssl, v41) = match &c.hs.kind {
            HsKind::V41 { caps, .. } => (caps & CAP_SSL != 0, true),
            HsKind::V320 { caps, .. } => ((*caps as u32) & CAP_SSL != 0, false),
            HsKind::Raw(_) => (false, true),
        };
        let user = c.hs.user().unwrap_or_default();
        let hs_len = c.hs.payload().len();
        if hs_len > 65_535 {
            ex.class("handshake-response>65535-bytes");
        }
        if hs_len >= MAX_PAYLOAD {
            ex.class("handshake-response-multi-fragment");
        }
        ex.nontrivial = !v41 || user != b"root" || (c.reject_auth.is_some() && !c.cmds.is_empty());
        ex.class(if v41 { "layout:4.1" } else { "layout:3.20" });
        ex.class(if case.tls_configured { "tls-configured" } else { "tls-not-configured" });
        if c.reject_auth.is_some() {
            ex.class(if c.cmds.is_empty() { "reject" } else { "reject-with-pipelined-commands" });
        }
        if wants_ssl {
            ex.class("ssl-requested-without-config");
        }
        if let RunResult::Panic(p) = &o.result {
            ex.fail(format!("c11-panic|{}", panic_signature(p)), format!("run_on panicked: {}", o.result.brief()));
            return ex;
        }
        if c.fault != Fault::None {
            ex.class("peer-gone-during-setup(next-connection-checked)");
            ex.nontrivial = true;
            return ex;
        }
        // greeting
        let kinds: Vec<ReplyKind> = c.cmds.iter().map(|sc| sc.cmd.reply_kind()).collect();
        let d = decode_output(&o.out, &kinds);
        let g = match &d.greeting {
            Some(g) => g,
            None => {
                ex.fail("c11-greeting", format!("no well-formed greeting: {:?}", d.problem));
                return ex;
            }
        };
        if d.phys[0].seq != 0 {
            ex.fail("c11-greeting-seq", format!("greeting carries sequence id {}", d.phys[0].seq));
        }
        if g.caps & CAP_PROTOCOL_41 == 0 {
            ex.fail("c11-greeting-caps", "greeting does not advertise the 4.1 protocol".to_string());
        }
        if (g.caps & CAP_SSL != 0) != case.tls_configured {
            ex.fail("c11-greeting-ssl", format!("greeting SSL capability is {} but the shim {} a TLS configuration", g.caps & CAP_SSL != 0, if case.tls_configured { "offers" } else { "does not offer" }));
        }
        {
            let mut buf = mysql_common::io::ParseBuf(&d.msgs[0].payload[..]);
            match HandshakePacket::deserialize((), &mut buf) {
                Ok(hp) => {
                    if hp.protocol_version() != 10 {
                        ex.fail("c11-greeting-second-opinion", "mysql_common reads a protocol version other than 10".to_string());
                    }
                    let caps = hp.capabilities().bits();
                    if caps & CAP_PROTOCOL_41 == 0 || ((caps & CAP_SSL != 0) != case.tls_configured) {
                        ex.fail("c11-greeting-second-opinion", format!("mysql_common reads capabilities {:#x}", caps));
                    }
                }
                Err(e) => ex.fail("c11-greeting-second-opinion", format!("mysql_common rejects the greeting: {}", e)),
            }
        }
        // flushed before the first read
        let glen = d.phys[0].start + d.phys[0].len;
        if let Some(first_read) = o.ops.iter().find(|op| op.kind == OpKind::Read) {
            if first_read.flushed < glen {
                ex.fail("c11-greeting-unflushed", format!("first read() issued with {} of the greeting's {} bytes flushed", first_read.flushed, glen));
            }
        }
        let auths: Vec<(usize, &Event)> = o.events.iter().enumerate().filter(|(_, e)| matches!(e, Event::Auth { .. })).collect();
        let last_hs_seq = c.hs.seq.wrapping_add((frame_count(c.hs.payload().len()) - 1) as u8);
        if wants_ssl && !case.tls_configured {
            if !o.result.is_err() {
                ex.fail("c11-ssl-without-config", format!("client requested TLS from a shim that offers none, run_on returned {}", o.result.brief()));
            }
            if !o.events.is_empty() {
                ex.fail("c11-ssl-without-config-callback", format!("callbacks ran although the TLS request had to be refused: {}", o.events[0].brief()));
            }
            return ex;
        }
        if auths.len() != 1 || auths[0].0 != 0 {
            ex.fail("c11-auth-callback", format!("after_authentication calls: {} (first callback: {:?})", auths.len(), o.events.first().map(|e| e.brief())));
            return ex;
        }
        if let Event::Auth { user: got, .. } = auths[0].1 {
            if got.as_deref() != Some(&user[..]) {
                ex.fail("c11-username", format!("after_authentication got user {} ({} bytes), client sent {} ({} bytes)", got.as_ref().map(|u| hex(u)).unwrap_or_default(), got.as_ref().map(|u| u.len()).unwrap_or(0), hex(&user), user.len()));
            }
        }
        let auth_reply = match &d.auth {
            Some(a) => a,
            None => {
                ex.fail("c11-auth-reply", format!("no reply to the handshake response: {:?}", d.problem));
                return ex;
            }
        };
        let seqs = d.seqs_of(auth_reply);
        if seqs != vec![last_hs_seq.wrapping_add(1)] {
            ex.fail("c11-auth-reply-seq", format!("reply to the handshake response (id {}) carries sequence ids {:?}", last_hs_seq, seqs));
        }
        // "the client receives OK/ERR": the reply must be covered by a flush before the server
        // waits for the next command (or ends)
        let auth_end = {
            let last = &d.msgs[auth_reply.first_msg + auth_reply.n_msgs - 1];
            let p = &d.phys[last.first_phys + last.n_phys - 1];
            p.start + p.len
        };
        let hs_end = o.msg_ends[0];
        if let Some(op) = o.ops.iter().find(|op| op.kind == OpKind::Read && op.at >= hs_end && op.flushed < auth_end) {
            ex.fail("c11-auth-reply-unflushed", format!("the server reads on (at client byte {}) while the reply to the handshake response is not flushed ({} of {} bytes)", op.at, op.flushed, auth_end));
        } else if o.flushed < auth_end && !o.result.is_panic() {
            ex.fail("c11-auth-reply-unflushed", format!("the connection ended with the reply to the handshake response unflushed ({} of {} bytes)", o.flushed, auth_end));
        }
        match c.reject_auth {
            Some(tag) => {
                match &auth_reply.units[..] {
                    [Unit::Err(e)] if e.code == 1045 && e.state == b"28000" => {}
                    other => ex.fail("c11-reject-reply", format!("rejected client received [{}], not ERR 1045/28000", other.iter().map(|u| u.brief()).collect::<Vec<_>>().join(", "))),
                }
                match &o.result {
                    RunResult::ErrTagged(t) if *t == tag => {}
                    other => ex.fail("c11-reject-result", format!("run_on returned {} instead of the shim's own error (tag {})", other.brief(), tag)),
                }
                if o.events.len() != 1 {
                    ex.fail("c11-served-after-reject", format!("callbacks after a rejected authentication: {}", o.events[1].brief()));
                }
                if d.replies.iter().any(|r| r.n_msgs > 0) {
                    ex.fail("c11-reply-after-reject", "a pipelined command was answered after the authentication was rejected".to_string());
                }
            }
            None => {
                match &auth_reply.units[..] {
                    [Unit::Ok(_)] => {}
                    other => ex.fail("c11-accept-reply", format!("accepted client received [{}], not OK", other.iter().map(|u| u.brief()).collect::<Vec<_>>().join(", "))),
                }
                if !o.result.is_ok() {
                    ex.fail("c11-accept-result", format!("run_on returned {}", o.result.brief()));
                }
                // capabilities both sides announced that change packet formats (DEPRECATE_EOF,
                // SESSION_TRACK, QUERY_ATTRIBUTES, compression ...): a server that honours one of
                // them answers in a dialect the reference decoder does not read; then only the
                // callbacks are compared
                let client_caps = match &c.hs.kind {
                    HsKind::V41 { caps, .. } => *caps,
                    HsKind::V320 { caps, .. } => *caps as u32,
                    HsKind::Raw(_) => 0,
                };
                let dialect = client_caps & g.caps & !(CAP_FORMAT_NEUTRAL | CAP_PROTOCOL_41 | CAP_SECURE_CONNECTION | CAP_SSL | CAP_CONNECT_WITH_DB | CAP_PLUGIN_AUTH);
                if dialect != 0 {
                    ex.class("negotiated-capabilities-change-the-reply-dialect");
                } else if let Some(p) = &d.problem {
                    ex.fail("c11-commands-not-served", format!("pipelined commands not all served: {}", p));
                }
                if !o.mismatches.is_empty() || o.leftover_actions != 0 {
                    ex.fail("c11-commands-not-served", format!("pipelined commands not all served: {} programs unused", o.leftover_actions));
                }
            }
        }
        ex
    }
}
