//! C01 — inbound packets are reassembled exactly under every transport chunking.
//! Oracle: round trip (reference framer -> server parser): the shim's log equals the scripted
//! command list byte-for-byte, run_on returns Ok, the stream is consumed exactly.

use crate::conv::*;
use crate::engine::*;
use crate::gen::G;
use crate::gens::*;
use crate::shim::*;
use crate::transport::*;
use crate::vals::ColSpec;
use crate::wire::*;
use serde::{Deserialize, Serialize};

pub struct C01;

#[derive(Clone, Debug, Serialize, Deserialize)]
pub struct Case {
    pub conv: Conversation,
}

const U24: usize = MAX_PAYLOAD;

fn small_len(g: &mut G<'_>) -> usize {
    match g.weighted(&[5, 3, 3, 2, 2]) {
        0 => g.usize_in(1, 16),
        1 => g.usize_in(4086, 4100),
        2 => g.usize_in(8180, 8196),
        3 => g.usize_in(65_533, 65_537),
        _ => g.usize_in(1, 20_000),
    }
}

/// one logical command whose packet payload has exactly `plen` bytes (>= 1 where possible);
/// returns the commands to send and the actions the shim needs
fn cmd_of_len(g: &mut G<'_>, kind: usize, plen: usize, stmt: u32, cmds: &mut Vec<Cmd>, actions: &mut Vec<Action>) {
    let seed = g.raw();
    match kind {
        0 => {
            let text = if plen <= 17 && g.coin() { Blob::Lit(gen_query_text(g).into_bytes()) } else { Blob::Text { seed, len: plen.saturating_sub(1).max(1) } };
            cmds.push(Cmd::Query { text });
            actions.push(Action::Result(Program::completed(0, 0)));
        }
        1 => {
            cmds.push(Cmd::Prepare { text: Blob::Text { seed, len: plen.saturating_sub(1) } });
            actions.push(Action::Prepare(PrepProg::Reply { id: stmt.wrapping_add(1000), params: vec![], cols: vec![] }));
        }
        2 => {
            cmds.push(Cmd::InitDb { name: Blob::Text { seed, len: plen.saturating_sub(1) } });
            actions.push(Action::Init(InitProg::Ok));
        }
        _ => {
            // long data (header 7 bytes) observed as the parameter of the following execute
            cmds.push(Cmd::Prepare { text: Blob::text("stmt") });
            actions.push(Action::Prepare(PrepProg::Reply { id: stmt, params: vec![ColSpec::simple("p", T_BLOB, 0)], cols: vec![] }));
            cmds.push(Cmd::LongData { id: stmt, param: 0, data: Blob::Pat { seed, len: plen.saturating_sub(7) } });
            cmds.push(Cmd::Execute {
                id: stmt,
                params: vec![Param { coltype: T_BLOB, unsigned: false, value: PVal::LongData }],
                send_types: true,
                flags: 0,
                iterations: 1,
            });
            actions.push(Action::Result(Program::completed(0, 0)));
        }
    }
}

fn expected_events(c: &Conversation) -> Vec<Event> {
    let mut ev = vec![Event::Auth { user: c.hs.user(), certs: None }];
    let mut pending: std::collections::HashMap<(u32, u16), Vec<u8>> = Default::default();
    for sc in &c.cmds {
        match &sc.cmd {
            Cmd::Query { text } => ev.push(Event::Query(String::from_utf8(text.bytes()).unwrap())),
            Cmd::Prepare { text } => ev.push(Event::Prepare(String::from_utf8(text.bytes()).unwrap())),
            Cmd::InitDb { name } => ev.push(Event::Init(String::from_utf8(name.bytes()).unwrap())),
            Cmd::LongData { id, param, data } => pending.entry((*id, *param)).or_default().extend(data.bytes()),
            Cmd::Execute { id, params, .. } => {
                let seen = params
                    .iter()
                    .enumerate()
                    .map(|(i, p)| SeenParam {
                        coltype: p.coltype,
                        inner: Inner::Bytes(pending.remove(&(*id, i as u16)).unwrap_or_default()),
                        conv: Conv::NotTried,
                        conv_str: None,
                    })
                    .collect();
                ev.push(Event::Execute { id: *id, params: seen });
            }
            Cmd::Close { id } => ev.push(Event::Close(*id)),
            _ => {}
        }
    }
    ev
}

fn finish_case(g: &mut G<'_>, cmds: Vec<Cmd>, actions: Vec<Action>, big: bool) -> Case {
    let mut conv = Conversation::new(cmds, actions);
    let (bytes, ends, _) = client_stream(&conv);
    let len = bytes.len();
    let mut s = gen_schedule(g, len, &ends);
    if big {
        // small reads only in windows around every packet header and the stream tail
        let (phys, _) = split_packets(&bytes);
        let w = g.usize_in(2, 9);
        s.hot = phys.iter().map(|p| ((p.start - 4).saturating_sub(w), p.start + w)).collect();
        s.hot.push((len.saturating_sub(w), len));
        s.big = *g.pick(&[1usize << 20, 3 << 20, 1 << 30, (1 << 20) + 1]);
        if s.sizes.iter().any(|&x| x > 64) {
            s.sizes = vec![1, 2, 3, 5];
        }
    }
    drop(bytes);
    conv.sched = s;
    Case { conv }
}

impl C01 {
    fn big_case(&self, plen: usize, kind: usize, sched_class: usize, seed: u32) -> Case {
        let data = [seed, sched_class as u32 * 0x1111_1111, 0x8000_0000, 0x4000_0000, seed ^ 0xdead_beef, 0x2000_0000, 0x7000_0000, seed.wrapping_mul(3), 0x9000_0000];
        let mut g = G::new(&data);
        let mut cmds = vec![Cmd::Ping];
        let mut actions = vec![];
        cmd_of_len(&mut g, kind, plen, 7, &mut cmds, &mut actions);
        // half of the cases end with the big command (a client that waits for its reply), the
        // others have a command pipelined behind it
        let trailing = seed % 2 == 0;
        if trailing {
            cmds.push(Cmd::Query { text: Blob::text("SELECT after") });
            actions.push(Action::Result(Program::completed(1, 2)));
        }
        let mut c = finish_case(&mut g, cmds, actions, true);
        c.conv.lockstep = !trailing && seed % 4 == 1;
        // explicit schedule classes for the windows
        c.conv.sched.sizes = match sched_class % 6 {
            0 => vec![1],
            1 => vec![1, 2, 3],
            2 => vec![3, 1, 4],
            3 => vec![2],
            4 => vec![4, 1],
            _ => vec![usize::MAX / 2],
        };
        if sched_class % 6 == 5 {
            c.conv.sched.hot.clear();
        }
        c
    }
}

impl Prop for C01 {
    type Case = Case;
    fn id(&self) -> &'static str {
        "C01"
    }
    fn rule(&self) -> String {
        "cases = 1-8 client commands (QUERY/PREPARE/INIT_DB text payloads, SEND_LONG_DATA+EXECUTE raw payloads) with payload lengths from classes {1-16, 4086-4100, 8180-8196, 65533-65537, random<20000, k*(2^24-1)+d for k = 1, 2, 3 and sizes up to the 64 MiB the server advertises as max_allowed_packet} x a chunk schedule (one read, 1-byte reads, tiny reads, random sizes, exact messages, k messages + partial header, cuts inside headers; for >=16 MiB payloads 1-5 byte reads inside windows around every packet header), with the client either pipelining everything or (1 in 3) sending each command only after the previous reply; the enumerated large commands are followed by another command in half of the cases and are the last thing sent in the other half; one enumerated conversation delivers a 120 000-byte (thorough: 300 000-byte) query in one-byte reads throughout. Non-trivial = some read() boundary fell strictly inside a 4-byte packet header, or some command's bytes were delivered by >= 2 reads (measured from the transport's operation log). Distinct = distinct serialised case.".into()
    }
    fn assumptions(&self) -> Vec<String> {
        vec!["payloads beyond 64 MiB (the limit the server advertises as max_allowed_packet) are not explored".into(), "the recording shim iterates all parameters of every execution".into()]
    }
    fn cases(&self, tier: Tier) -> u64 {
        tier.pick(20000, 200000)
    }
    fn fuzz_plan(&self, tier: Tier) -> Vec<(&'static str, u64)> {
        if tier == Tier::Thorough {
            vec![("prop", 6_000)]
        } else {
            vec![]
        }
    }
    fn choice_len(&self) -> usize {
        256
    }
    fn gen(&self, g: &mut G<'_>, _tier: Tier) -> Case {
        let n = g.usize_in(1, 8);
        let mut cmds = Vec::new();
        let mut actions = Vec::new();
        for i in 0..n {
            if g.chance(1, 6) {
                cmds.push(Cmd::Ping);
                continue;
            }
            let kind = g.weighted(&[4, 2, 2, 3]);
            let plen = small_len(g);
            cmd_of_len(g, kind, plen, i as u32 + 1, &mut cmds, &mut actions);
        }
        if g.chance(1, 3) {
            cmds.push(Cmd::Quit);
        }
        let mut c = finish_case(g, cmds, actions, false);
        // a client that sends each command only after the previous reply (the chunk schedule then
        // applies within what has been released)
        c.conv.lockstep = g.chance(1, 3);
        c
    }
    fn fixed(&self, tier: Tier) -> Vec<Case> {
        let mut v = Vec::new();
        let ds: Vec<i64> = match tier {
            Tier::Quick => vec![-1, 0, 1],
            Tier::Thorough => vec![-3, -2, -1, 0, 1, 2, 3],
        };
        let mut sizes: Vec<usize> = Vec::new();
        for k in 1..=2usize {
            for d in &ds {
                sizes.push(((k * U24) as i64 + *d) as usize);
            }
        }
        sizes.push(2 * U24 + 65_536 + 17);
        if tier == Tier::Quick {
            // 7 sizes
            sizes = vec![U24 - 1, U24, U24 + 1, 2 * U24 - 1, 2 * U24, 2 * U24 + 1, 2 * U24 + 65_536 + 17];
        }
        // up to the size the server itself advertises as its limit (SELECT @@max_allowed_packet:
        // 64 MiB), which takes five packets
        match tier {
            Tier::Quick => sizes.extend([3 * U24 + 1, (1 << 26) - 9, 1 << 26]),
            Tier::Thorough => sizes.extend([3 * U24 - 1, 3 * U24, 3 * U24 + 1, 4 * U24 - 20, (1 << 26) - 17, (1 << 26) - 9, (1 << 26) - 1, 1 << 26]),
        }
        let nsched = tier.pick(3, 6);
        for (i, &sz) in sizes.iter().enumerate() {
            for sc in 0..nsched {
                // rotate the command kind so each size sees text and raw payloads
                let kind = match (i + sc) % 3 {
                    0 => 0,
                    1 => 3,
                    _ => 1,
                };
                let sc = if tier == Tier::Quick { [0usize, 2, 5][sc] } else { sc };
                v.push(self.big_case(sz, kind, sc, (i * 31 + sc) as u32 + 1));
            }
        }
        // "for all partitions ... into read() results (1-byte reads ...)": one command delivered in
        // more reads than any counter of "reasonable" reads per command would allow - 120 000
        // (thorough: 300 000) one-byte reads, with a command pipelined behind it
        let n = tier.pick(120_000usize, 300_000usize);
        let mut conv = Conversation::new(
            vec![Cmd::Ping, Cmd::Query { text: Blob::Text { seed: 77, len: n } }, Cmd::Query { text: Blob::text("SELECT after") }],
            vec![Action::Result(Program::completed(3, 4)), Action::Result(Program::completed(1, 2))],
        );
        conv.sched = Schedule { sizes: vec![1], hot: vec![], big: 0, write_accept: vec![] };
        v.push(Case { conv });
        v
    }
    fn exec(&self, case: &Case) -> Exec {
        let mut ex = Exec::default();
        let c = &case.conv;
        let o = run_with(c, None, false);
        let want = expected_events(c);
        // non-trivial?
        let (bytes, ends, _) = client_stream(c);
        let (phys, _) = split_packets(&bytes);
        let mut in_header = false;
        for op in o.ops.iter().filter(|op| op.kind == OpKind::Read && op.n > 0) {
            let b = op.at + op.n; // boundary after this read
            if phys.iter().any(|p| b > p.start - 4 && b < p.start) {
                in_header = true;
                break;
            }
        }
        let mut spanning = false;
        let mut prev = 0;
        for &e in &ends {
            let reads = o.ops.iter().filter(|op| op.kind == OpKind::Read && op.n > 0 && op.at < e && op.at + op.n > prev).count();
            if reads >= 2 {
                spanning = true;
            }
            prev = e;
        }
        let large = c.cmds.iter().any(|sc| sc.cmd.payload_len_hint() >= U24);
        ex.nontrivial = in_header || spanning;
        if in_header {
            ex.class("read-boundary-inside-header");
        }
        if spanning {
            ex.class("command-spans-reads");
        }
        if large {
            ex.class("payload>=2^24-1");
        }
        ex.class(format!("schedule:{}", describe_schedule(&c.sched)));

        if c.lockstep {
            ex.class("lock-step");
        }
        if o.would_block {
            ex.fail("c01-command-not-delivered", format!("the server waits for more input although a complete command has arrived and its reply is still owed ({} of {} bytes consumed, {} callbacks so far)", o.consumed, o.inbound_len, o.events.len()));
            return ex;
        }
        if !o.result.is_ok() {
            ex.fail("c01-run-result", format!("run_on returned {} for a well-formed conversation", o.result.brief()));
            return ex;
        }
        if !o.mismatches.is_empty() {
            ex.fail("c01-callback-mismatch", format!("shim saw unexpected callbacks: {:?}", o.mismatches));
        }
        if o.consumed != o.inbound_len {
            ex.fail("c01-not-consumed", format!("server consumed {} of {} client bytes", o.consumed, o.inbound_len));
        }
        if o.events.len() != want.len() {
            ex.fail(
                "c01-event-count",
                format!(
                    "shim saw {} callbacks, client sent {}: got [{}]",
                    o.events.len(),
                    want.len(),
                    o.events.iter().map(|e| e.brief()).collect::<Vec<_>>().join(", ")
                ),
            );
            return ex;
        }
        for (i, (g, w)) in o.events.iter().zip(&want).enumerate() {
            if g != w {
                ex.fail("c01-event-differs", format!("callback {} differs: got {}, client sent {}{}", i, g.brief(), w.brief(), first_diff(g, w)));
                break;
            }
        }
        ex
    }
}

fn first_diff(a: &Event, b: &Event) -> String {
    let (x, y): (Vec<u8>, Vec<u8>) = match (a, b) {
        (Event::Query(x), Event::Query(y)) | (Event::Prepare(x), Event::Prepare(y)) | (Event::Init(x), Event::Init(y)) => (x.clone().into_bytes(), y.clone().into_bytes()),
        (Event::Execute { params: p, .. }, Event::Execute { params: q, .. }) => match (p.first().map(|p| &p.inner), q.first().map(|p| &p.inner)) {
            (Some(Inner::Bytes(x)), Some(Inner::Bytes(y))) => (x.clone(), y.clone()),
            _ => return String::new(),
        },
        _ => return String::new(),
    };
    let n = x.iter().zip(&y).position(|(a, b)| a != b).unwrap_or(x.len().min(y.len()));
    format!(" (lengths {} vs {}, first difference at byte {})", x.len(), y.len(), n)
}
