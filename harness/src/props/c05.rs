//! C05 — response sequence ids continue the request's and wrap modulo 256.

use crate::conv::*;
use crate::engine::*;
use crate::gen::G;
use crate::gens::*;
use crate::shim::*;
use crate::vals::*;
use crate::wire::*;
use serde::{Deserialize, Serialize};

pub struct C05;

#[derive(Clone, Debug, Serialize, Deserialize)]
pub struct Case {
    pub conv: Conversation,
    /// the connection is upgraded to TLS first: SSL request carrying this sequence id, then the
    /// conversation (handshake response with `conv.hs.seq` onwards) inside the session; the ids of
    /// the decrypted server packets are what is checked
    #[serde(default)]
    pub over_tls: Option<u8>,
}

/// a program producing many packets: `rows` rows over `ncols` small columns
fn long_program(g: &mut G<'_>, _bin: bool, rows: usize, ncols: usize) -> Program {
    let cols: Vec<ColSpec> = (0..ncols).map(|i| ColSpec { table: "t".into(), name: format!("c{}", i), coltype: T_LONG, flags: 0 }).collect();
    let rows: Vec<RowProg> = (0..rows)
        .map(|r| RowProg { cells: (0..ncols).map(|c| Val::plain(Base::I32((r * 31 + c) as i32))).collect(), form: if g.coin() { RowForm::WriteRow } else { RowForm::Cols }, offers: vec![] })
        .collect();
    let mut steps = Vec::new();
    if g.chance(1, 3) {
        steps.push(Step::CompleteOne { rows: 1, id: 2 });
    }
    let end = match g.below(3) {
        0 => SetEnd::Finish,
        1 => SetEnd::DropRowWriter,
        _ => SetEnd::FinishError { kind: 1105, msg: b"late".to_vec() },
    };
    steps.push(Step::Set { cols, rows, end });
    Program { steps }
}

fn request_wraps(c: &Conversation) -> bool {
    // requests whose own fragments would wrap past 255 are outside this property's domain
    c.cmds.iter().any(|sc| sc.seq as usize + frame_count(sc.cmd.payload_len_hint()) - 1 > 255)
}

impl Prop for C05 {
    type Case = Case;
    fn id(&self) -> &'static str {
        "C05"
    }
    fn canary(&self) -> bool {
        true
    }
    fn rule(&self) -> String {
        "cases = C03-style conversations where every request (incl. the handshake response) carries a generated start sequence id (0 / 1 mostly, else uniform 0-255, with 254/255 favoured) and some programs produce 256-1100 response packets (hundreds of rows, or a 300-1000 column header; enumerated: 65536 and more rows); 1 conversation in 1500 contains a row of 17-70 MB laid out against the packet boundaries (cells of 1x, 2x, 3x the packet size, several of them per row, small cells in between), in either protocol; enumerated multi-fragment (>= 2^24-1 byte) requests so that the *last* request id matters, one of them a 70 MB query (beyond the advertised max_allowed_packet: the reply may be an error about the size, its ids are checked all the same); 1 conversation in 20 is upgraded to TLS first (SSL request with the id below the handshake response's, or any id; a rustls client; one third of them with a shim that then refuses the client), and the ids of the decrypted server packets are checked the same way. Oracle: greeting id 0; every reply's packets are last_request_id+1+i mod 256. Non-trivial = some response has > 255 packets, or some request id != 0, or a multi-fragment request, or a response message of 2^24-1 bytes or more (enumerated: a 16 MiB cell between ordinary rows, request ids 0 and 250).".into()
    }
    fn assumptions(&self) -> Vec<String> {
        vec!["requests whose own fragments would wrap past id 255 are outside the domain (C20 covers them)".into()]
    }
    fn cases(&self, tier: Tier) -> u64 {
        tier.pick(120000, 1200000)
    }
    fn choice_len(&self) -> usize {
        4096
    }
    fn gen(&self, g: &mut G<'_>, _tier: Tier) -> Case {
        let opts = ConvOpts { max_cmds: 6, max_rows: 4, sentinels: g.coin(), default_init_sometimes: false, quit_sometimes: true };
        let mut conv = gen_conv(g, &opts);
        // one long response sometimes; rarely one whose rows are longer than a wire packet
        let big_layout = g.chance(1, 1500) && !g.fuzzing;
        if big_layout || g.chance(1, 4) {
            let mut idx = Vec::new();
            let mut ai = 0;
            for sc in conv.cmds.iter() {
                let consumes = match &sc.cmd {
                    Cmd::Query { text } => !crate::model::is_builtin_probe(&text.bytes()),
                    Cmd::Prepare { .. } | Cmd::Execute { .. } | Cmd::InitDb { .. } => true,
                    _ => false,
                };
                if consumes {
                    if matches!(conv.actions.get(ai), Some(Action::Result(_))) {
                        idx.push((ai, matches!(sc.cmd, Cmd::Execute { .. })));
                    }
                    ai += 1;
                }
            }
            if !idx.is_empty() {
                let (ai, bin) = *g.pick(&idx);
                if big_layout {
                    let (cols, big) = gen_big_layout_row(g, bin);
                    let small = RowProg { cells: cols.iter().map(|_| Val { base: Base::U8(0), wrap: Wrap::None }).collect(), form: RowForm::WriteRow, offers: vec![] };
                    let rows = if g.coin() { vec![small.clone(), big, small] } else { vec![big] };
                    conv.actions[ai] = Action::Result(Program { steps: vec![Step::Set { cols, rows, end: SetEnd::Finish }] });
                }
                let (rows, ncols) = match g.below(4) {
                    0 => (g.usize_in(250, 260), 1),
                    1 => (g.usize_in(500, 1100), 2),
                    2 => (2, g.usize_in(252, 258)),
                    _ => (g.usize_in(0, 3), *g.pick(&[300usize, 510, 1000])),
                };
                if !big_layout {
                    conv.actions[ai] = Action::Result(long_program(g, bin, rows, ncols));
                }
            }
        }
        for sc in conv.cmds.iter_mut() {
            sc.seq = match g.weighted(&[6, 2, 2]) {
                0 => 0,
                1 => *g.pick(&[255u8, 254, 1, 127, 128, 253]),
                _ => g.byte(),
            };
        }
        conv.hs.seq = match g.weighted(&[6, 2, 2]) {
            0 => 1,
            1 => *g.pick(&[255u8, 254, 0]),
            _ => g.byte(),
        };
        let (len, ends, _) = client_stream_meta(&conv);
        conv.sched = gen_schedule(g, len, &ends);
        if big_layout {
            // tens of megabytes through a transport that takes a few bytes per write() would only
            // exhaust the operation budget
            for a in conv.sched.write_accept.iter_mut() {
                if *a != 0 && *a < 1 << 16 {
                    *a = (1 << 16) + *a * 4099;
                }
            }
        }
        let mut over_tls = None;
        if !big_layout && !g.fuzzing && matches!(conv.hs.kind, HsKind::V41 { .. }) && g.chance(1, 20) {
            over_tls = Some(if g.chance(2, 3) { conv.hs.seq.wrapping_sub(1) } else { g.byte() });
            if g.chance(1, 3) {
                // ... and the shim refuses the client once it has seen who it is
                conv.reject_auth = Some(3000 + g.below(100) as u32);
            }
            conv.sched = crate::transport::Schedule::all_at_once();
            conv.lockstep = g.coin();
        }
        Case { conv, over_tls }
    }
    fn fixed(&self, tier: Tier) -> Vec<Case> {
        // multi-fragment requests: the reply continues after the LAST fragment's id
        let mut v = Vec::new();
        let sizes: &[usize] = match tier {
            Tier::Quick => &[MAX_PAYLOAD, MAX_PAYLOAD + 5],
            Tier::Thorough => &[MAX_PAYLOAD - 1, MAX_PAYLOAD, MAX_PAYLOAD + 5, 2 * MAX_PAYLOAD, 2 * MAX_PAYLOAD + 1],
        };
        for (i, &sz) in sizes.iter().enumerate() {
            for &seq in &[0u8, 7, 253, 254] {
                if tier == Tier::Quick && (seq == 7) {
                    continue;
                }
                if seq as usize + frame_count(sz) - 1 > 255 {
                    continue;
                }
                let mut conv = Conversation::new(
                    vec![Cmd::Ping, Cmd::Query { text: Blob::Text { seed: i as u32 + 3, len: sz - 1 } }, Cmd::Ping],
                    vec![Action::Result(Program { steps: vec![Step::CompleteOne { rows: 1, id: 1 }, Step::Completed { rows: 2, id: 2 }] })],
                );
                conv.cmds[1].seq = seq;
                conv.sched = crate::transport::Schedule::fixed(1 << 22);
                v.push(Case { conv, over_tls: None });
            }
        }
        // a request beyond the 64 MiB the server advertises as max_allowed_packet (five fragments):
        // whatever the server answers - the shim's reply, or an error of its own about the size -
        // is numbered after the request's last fragment
        for &seq in &[0u8, 250] {
            if tier == Tier::Quick && seq != 0 {
                continue;
            }
            let mut conv = Conversation::new(
                vec![Cmd::Ping, Cmd::Query { text: Blob::Text { seed: 61, len: 70_000_003 } }, Cmd::Ping, Cmd::Query { text: Blob::text("small") }],
                vec![Action::Result(Program::completed(5, 6)), Action::Result(Program::completed(1, 1))],
            );
            conv.cmds[1].seq = seq;
            conv.sched = crate::transport::Schedule::fixed(1 << 22);
            v.push(Case { conv, over_tls: None });
        }
        // responses of more than 2^16 packets (the 8-bit id wraps hundreds of times)
        for (i, &n) in [65_533usize, 65_536, 66_000].iter().enumerate() {
            if tier == Tier::Quick && i == 2 {
                continue;
            }
            let rows: Vec<RowProg> = (0..n).map(|r| RowProg { cells: vec![Val::plain(Base::I32(r as i32))], form: RowForm::WriteRow, offers: vec![] }).collect();
            let prog = Program { steps: vec![Step::Set { cols: vec![ColSpec::simple("a", T_LONG, 0)], rows, end: SetEnd::Finish }] };
            let mut conv = Conversation::new(vec![Cmd::Query { text: Blob::text("many") }, Cmd::Ping], vec![Action::Result(prog)]);
            conv.cmds[0].seq = [0u8, 201, 255][i];
            v.push(Case { conv, over_tls: None });
        }
        // a user-defined value type that flushes the writer it is handed (first cell of text rows):
        // nothing is buffered at that point, so the flush must not disturb the numbering
        for seq in [0u8, 9, 254] {
            let rows: Vec<RowProg> = (0..3).map(|r| RowProg { cells: vec![Val::plain(Base::FlushThenI32(r)), Val::plain(Base::I32(7))], form: RowForm::Cols, offers: vec![] }).collect();
            let prog = Program { steps: vec![Step::Set { cols: vec![ColSpec::simple("a", T_LONG, 0), ColSpec::simple("b", T_LONG, 0)], rows, end: SetEnd::Finish }] };
            let mut conv = Conversation::new(vec![Cmd::Query { text: Blob::text("flushy") }, Cmd::Ping], vec![Action::Result(prog)]);
            conv.cmds[0].seq = seq;
            v.push(Case { conv, over_tls: None });
        }
        // responses that contain a message of 2^24-1 bytes or more: the continuation packets
        // must keep counting (a text row: 1 + lenenc(3/4 bytes) + cell)
        let cells: &[usize] = match tier {
            Tier::Quick => &[MAX_PAYLOAD - 4, MAX_PAYLOAD + 100, 3 * MAX_PAYLOAD + 50],
            Tier::Thorough => &[MAX_PAYLOAD - 5, MAX_PAYLOAD - 4, MAX_PAYLOAD - 3, MAX_PAYLOAD + 100, 2 * MAX_PAYLOAD - 9, 2 * MAX_PAYLOAD + 7, 3 * MAX_PAYLOAD - 9, 3 * MAX_PAYLOAD + 50, 4 * MAX_PAYLOAD + 1],
        };
        for (i, &len) in cells.iter().enumerate() {
            for &seq in &[0u8, 250] {
                let small = |k: i32| RowProg { cells: vec![Val::plain(Base::I32(k))], form: RowForm::WriteRow, offers: vec![] };
                let big = RowProg { cells: vec![Val::plain(Base::BigBytes { seed: i as u32 + 11, len })], form: RowForm::Cols, offers: vec![] };
                let prog = Program {
                    steps: vec![
                        Step::CompleteOne { rows: 1, id: 1 },
                        Step::Set { cols: vec![ColSpec::simple("c", T_LONG_BLOB, 0)], rows: vec![small(1), big, small(2), small(3)], end: SetEnd::Finish },
                    ],
                };
                let mut conv = Conversation::new(vec![Cmd::Query { text: Blob::text("big") }, Cmd::Ping], vec![Action::Result(prog)]);
                conv.cmds[0].seq = seq;
                v.push(Case { conv, over_tls: None });
            }
        }
        v
    }
    fn exec(&self, case: &Case) -> Exec {
        let mut ex = Exec::default();
        let c = &case.conv;
        if request_wraps(c) {
            ex.class("out-of-domain:request-fragments-wrap");
            return ex;
        }
        if let Some(req_seq) = case.over_tls {
            return exec_tls(c, req_seq);
        }
        let o = run_with(c, None, false);
        let kinds: Vec<ReplyKind> = c.cmds.iter().map(|sc| sc.cmd.reply_kind()).collect();
        let d = decode_output(&o.out, &kinds);
        let multi = c.cmds.iter().any(|sc| frame_count(sc.cmd.payload_len_hint()) > 1);
        let nonzero = c.cmds.iter().any(|sc| sc.seq != 0);
        let long = d.replies.iter().any(|r| d.seqs_of(r).len() > 255);
        let big_response = d.phys.iter().any(|p| p.len == MAX_PAYLOAD);
        if big_response {
            ex.class("response-message>=2^24-1");
            for a in &c.actions {
                if let Action::Result(p) = a {
                    for st in &p.steps {
                        if let Step::Set { rows, .. } = st {
                            for r in rows.iter().filter(|r| r.cells.iter().any(|c| matches!(c.base, Base::BigBytes { .. }))) {
                                for cl in classify_big_layout(r) {
                                    ex.class(cl);
                                }
                            }
                        }
                    }
                }
            }
        }
        ex.nontrivial = multi || nonzero || long || big_response;
        if multi {
            ex.class("multi-fragment-request");
        }
        if nonzero {
            ex.class("request-id-nonzero");
        }
        if c.cmds.iter().any(|sc| sc.seq == 255) || c.hs.seq == 255 {
            ex.class("request-id-255");
        }
        if long {
            ex.class("response>255-packets");
        }
        if let RunResult::Panic(p) = &o.result {
            ex.fail(format!("c05-panic|{}", panic_signature(p)), format!("run_on panicked: {}", o.result.brief()));
            return ex;
        }
        let over_limit = c.cmds.iter().any(|sc| sc.cmd.payload_len_hint() > (1 << 26));
        if over_limit {
            ex.class("request-beyond-the-advertised-max_allowed_packet");
        }
        if over_limit && o.result.is_err() {
            // a server may end the connection over a request larger than it said it takes (MySQL
            // does); what it sent until then is numbered like everything else
            ex.class("over-limit-request-ended-the-connection");
            let mut all = vec![ReplyKind::OkOrErr];
            all.extend(kinds.iter().cloned());
            let n = complete_replies(&o.out, &all).unwrap_or(0);
            let mut cc = c.clone();
            cc.cmds.truncate(n.saturating_sub(1));
            let d2 = decode_output(&o.out, &kinds[..n.saturating_sub(1).min(kinds.len())]);
            if let Err(m) = check_sequence_ids(&cc, &d2) {
                ex.fail("c05-sequence", m);
            }
            return ex;
        }
        if !o.result.is_ok() {
            ex.fail("c05-run-result", format!("run_on returned {}", o.result.brief()));
        }
        if let Some(p) = &d.problem {
            ex.fail("c05-nonconformant", format!("client decoder rejects the output: {}", p));
            return ex;
        }
        if let Err(m) = check_sequence_ids(c, &d) {
            ex.fail("c05-sequence", m);
        }
        ex
    }
}

/// see `Case::over_tls`
fn exec_tls(c: &Conversation, req_seq: u8) -> Exec {
    use crate::tlspeer::*;
    use crate::transport::*;
    let mut ex = Exec::default();
    ex.nontrivial = true;
    ex.class("over-TLS");
    let rejected = c.reject_auth.is_some();
    if rejected {
        ex.class("over-TLS:shim-refuses-the-client");
    }
    let fx = crate::tlsfix::fixtures();
    let caps = match &c.hs.kind {
        HsKind::V41 { caps, .. } => *caps,
        _ => CAP_PROTOCOL_41,
    };
    let mut ssl_req = Vec::new();
    frame_into(&mut ssl_req, &ssl_request(caps, 1 << 24, 0x21), req_seq);
    let mut messages = Vec::new();
    let mut m0 = Vec::new();
    frame_into(&mut m0, &c.hs.payload(), c.hs.seq);
    messages.push(m0);
    let mut kinds = vec![ReplyKind::OkOrErr];
    // (a refused client sends nothing more)
    let cmds = if rejected { &c.cmds[..0] } else { &c.cmds[..] };
    for sc in cmds {
        let mut m = Vec::new();
        frame_into(&mut m, &sc.cmd.payload(), sc.seq);
        messages.push(m);
        kinds.push(sc.cmd.reply_kind());
    }
    let (peer, log) = TlsClientPeer::new(client_config(req_seq % 2 == 0, false, 0), ssl_req, messages, kinds.clone(), c.lockstep);
    let tr = Transport::new(Vec::new(), c.sched.clone(), Fault::None);
    tr.0.borrow_mut().peer = Some(Box::new(peer));
    let o = run_raw_tls(c, tr, Some(fx.server_plain.clone()));
    let log = log.borrow();
    if let RunResult::Panic(p) = &o.result {
        ex.fail(format!("c05-panic|{}", panic_signature(p)), format!("run_on panicked: {}", o.result.brief()));
        return ex;
    }
    if let Some(e) = &log.tls_error {
        ex.fail("c05-tls-stream", format!("the TLS client rejects the server's byte stream: {} (run_on: {})", e, o.result.brief()));
        return ex;
    }
    if rejected != o.result.is_err() {
        ex.fail("c05-run-result", format!("run_on returned {} (client refused by the shim: {})", o.result.brief(), rejected));
        return ex;
    }
    // the greeting went out in plaintext, everything after it inside the session
    let (phys, _) = split_packets(&log.pre_tls);
    let gend = phys.first().map(|p| p.start + p.len).unwrap_or(0);
    let mut stream = log.pre_tls[..gend].to_vec();
    stream.extend_from_slice(&log.decrypted);
    let d = decode_output(&stream, &kinds[1..]);
    if let Some(p) = &d.problem {
        ex.fail("c05-nonconformant", format!("client decoder rejects the decrypted output: {}", p));
        return ex;
    }
    let mut cc = c.clone();
    if rejected {
        cc.cmds.clear();
    }
    if let Err(m) = check_sequence_ids(&cc, &d) {
        ex.fail("c05-sequence", format!("over TLS (SSL request id {}, encrypted response id {}): {}", req_seq, c.hs.seq, m));
    }
    ex
}
