//! Owned model of every value a shim can hand to the writer API, and dispatch of each model
//! value to the library's own `ToMysqlValue` implementation for the concrete Rust type.

use msql_srv::{Column, ColumnFlags, ColumnType, ToMysqlValue};
use mysql_common::value::Value as MyValue;
use serde::{Deserialize, Serialize};
use std::io::{self, Write};

#[derive(Clone, Debug, PartialEq, Serialize, Deserialize)]
pub enum MyVal {
    Null,
    Bytes(Vec<u8>),
    Int(i64),
    UInt(u64),
    Float(u32),
    Double(u64),
    Date(u16, u8, u8, u8, u8, u8, u32),
    Time(bool, u32, u8, u8, u8, u32),
}

impl MyVal {
    pub fn to_my(&self) -> MyValue {
        match self {
            MyVal::Null => MyValue::NULL,
            MyVal::Bytes(b) => MyValue::Bytes(b.clone()),
            MyVal::Int(i) => MyValue::Int(*i),
            MyVal::UInt(u) => MyValue::UInt(*u),
            MyVal::Float(b) => MyValue::Float(f32::from_bits(*b)),
            MyVal::Double(b) => MyValue::Double(f64::from_bits(*b)),
            MyVal::Date(y, m, d, h, mi, s, us) => MyValue::Date(*y, *m, *d, *h, *mi, *s, *us),
            MyVal::Time(n, d, h, m, s, us) => MyValue::Time(*n, *d, *h, *m, *s, *us),
        }
    }
}

/// The concrete Rust value (type + payload) handed to the writer.
#[derive(Clone, Debug, PartialEq, Serialize, Deserialize)]
pub enum Base {
    U8(u8),
    I8(i8),
    U16(u16),
    I16(i16),
    U32(u32),
    I32(i32),
    U64(u64),
    I64(i64),
    Usize(u64),
    Isize(i64),
    /// bit patterns, so that replay files are exact
    F32(u32),
    F64(u64),
    /// owned `String`
    Str(String),
    /// `&str`
    StrRef(String),
    /// owned `Vec<u8>`
    Vec(Vec<u8>),
    /// `&[u8]`
    Slice(Vec<u8>),
    Date(i32, u32, u32),
    DateTime(i32, u32, u32, u32, u32, u32, u32),
    Dur(u64, u32),
    My(MyVal),
    /// `Vec<u8>` of `len` pattern bytes (kept symbolic so that huge values serialise small)
    BigBytes { seed: u32, len: usize },
    /// `String` of `len` printable-ASCII pattern bytes
    BigStr { seed: u32, len: usize },
    /// a user-defined value type that calls `flush()` on the writer it is handed before it
    /// encodes the integer (legal: the writer is `W: Write`); only used as the first cell of a text row
    FlushThenI32(i32),
}

/// see `Base::FlushThenI32`
pub struct Flusher(pub i32);
impl ToMysqlValue for Flusher {
    fn to_mysql_text<W: Write>(&self, w: &mut W) -> io::Result<()> {
        w.flush()?;
        self.0.to_mysql_text(w)
    }
    fn to_mysql_bin<W: Write>(&self, w: &mut W, c: &Column) -> io::Result<()> {
        self.0.to_mysql_bin(w, c)
    }
}

pub fn big_bytes(seed: u32, len: usize) -> Vec<u8> {
    crate::gen::pattern(seed, len)
}

pub fn big_str(seed: u32, len: usize) -> String {
    let v: Vec<u8> = (0..len as u64).map(|i| b' ' + 1 + crate::gen::pattern_byte(seed, i) % 90).collect();
    String::from_utf8(v).unwrap()
}

/// How the value is passed: by value, by reference, inside an `Option`, …
#[derive(Clone, Copy, Debug, PartialEq, Eq, Serialize, Deserialize)]
pub enum Wrap {
    Plain,
    Ref,
    Some,
    SomeRef,
    RefSome,
    /// `None::<T>` of the base's type (payload ignored)
    None,
    /// `&None::<T>`
    RefNone,
}

#[derive(Clone, Debug, PartialEq, Serialize, Deserialize)]
pub struct Val {
    pub base: Base,
    pub wrap: Wrap,
}

impl Val {
    pub fn plain(base: Base) -> Val {
        Val { base, wrap: Wrap::Plain }
    }
    /// does this value denote SQL NULL?
    pub fn denotes_null(&self) -> bool {
        matches!(self.wrap, Wrap::None | Wrap::RefNone) || matches!(self.base, Base::My(MyVal::Null))
    }
}

pub trait Sink {
    fn put<T: ToMysqlValue>(&mut self, v: T) -> io::Result<()>;
}

fn wrapped<T: ToMysqlValue + Clone, S: Sink>(x: T, w: Wrap, sink: &mut S) -> io::Result<()> {
    match w {
        Wrap::Plain => sink.put(x),
        Wrap::Ref => sink.put(&x),
        Wrap::Some => sink.put(Some(x)),
        Wrap::SomeRef => sink.put(Some(&x)),
        Wrap::RefSome => sink.put(&Some(x)),
        Wrap::None => sink.put(None::<T>),
        Wrap::RefNone => sink.put(&None::<T>),
    }
}

pub fn naive_date(y: i32, m: u32, d: u32) -> Option<chrono::NaiveDate> {
    chrono::NaiveDate::from_ymd_opt(y, m, d)
}

/// Hand `val` to `sink` as the concrete Rust type it models.
pub fn dispatch<S: Sink>(val: &Val, sink: &mut S) -> io::Result<()> {
    let w = val.wrap;
    match &val.base {
        Base::U8(x) => wrapped(*x, w, sink),
        Base::I8(x) => wrapped(*x, w, sink),
        Base::U16(x) => wrapped(*x, w, sink),
        Base::I16(x) => wrapped(*x, w, sink),
        Base::U32(x) => wrapped(*x, w, sink),
        Base::I32(x) => wrapped(*x, w, sink),
        Base::U64(x) => wrapped(*x, w, sink),
        Base::I64(x) => wrapped(*x, w, sink),
        Base::Usize(x) => wrapped(*x as usize, w, sink),
        Base::Isize(x) => wrapped(*x as isize, w, sink),
        Base::F32(b) => wrapped(f32::from_bits(*b), w, sink),
        Base::F64(b) => wrapped(f64::from_bits(*b), w, sink),
        Base::Str(s) => wrapped(s.clone(), w, sink),
        Base::StrRef(s) => wrapped(s.as_str(), w, sink),
        Base::Vec(b) => wrapped(b.clone(), w, sink),
        Base::Slice(b) => wrapped(&b[..], w, sink),
        Base::Date(y, m, d) => wrapped(naive_date(*y, *m, *d).expect("generator makes valid dates"), w, sink),
        Base::DateTime(y, m, d, h, mi, s, us) => wrapped(
            naive_date(*y, *m, *d).and_then(|dt| dt.and_hms_micro_opt(*h, *mi, *s, *us)).expect("generator makes valid datetimes"),
            w,
            sink,
        ),
        Base::Dur(secs, us) => wrapped(std::time::Duration::new(*secs, *us * 1000), w, sink),
        Base::My(m) => wrapped(m.to_my(), w, sink),
        Base::BigBytes { seed, len } => wrapped(big_bytes(*seed, *len), w, sink),
        Base::BigStr { seed, len } => wrapped(big_str(*seed, *len), w, sink),
        Base::FlushThenI32(x) => sink.put(Flusher(*x)),
    }
}

pub struct TextSink<'a>(pub &'a mut Vec<u8>);
impl<'a> Sink for TextSink<'a> {
    fn put<T: ToMysqlValue>(&mut self, v: T) -> io::Result<()> {
        v.to_mysql_text(self.0)
    }
}

/// a writer that accepts `left` bytes and then fails every call (a connection that broke)
pub struct FailingWriter {
    pub left: usize,
}
impl Write for FailingWriter {
    fn write(&mut self, buf: &[u8]) -> io::Result<usize> {
        if self.left == 0 {
            return Err(io::Error::new(io::ErrorKind::BrokenPipe, "harness: writer broke"));
        }
        let n = buf.len().min(self.left);
        self.left -= n;
        Ok(n)
    }
    fn flush(&mut self) -> io::Result<()> {
        Ok(())
    }
}
/// text encoding into a `FailingWriter`
pub struct FailingTextSink(pub usize);
impl Sink for FailingTextSink {
    fn put<T: ToMysqlValue>(&mut self, v: T) -> io::Result<()> {
        v.to_mysql_text(&mut FailingWriter { left: self.0 })
    }
}
/// binary encoding into a `FailingWriter`
pub struct FailingBinSink<'a> {
    pub left: usize,
    pub col: &'a Column,
}
impl<'a> Sink for FailingBinSink<'a> {
    fn put<T: ToMysqlValue>(&mut self, v: T) -> io::Result<()> {
        v.to_mysql_bin(&mut FailingWriter { left: self.left }, self.col)
    }
}

pub struct BinSink<'a> {
    pub out: &'a mut Vec<u8>,
    pub col: &'a Column,
}
impl<'a> Sink for BinSink<'a> {
    fn put<T: ToMysqlValue>(&mut self, v: T) -> io::Result<()> {
        v.to_mysql_bin(self.out, self.col)
    }
}

pub struct NullSink(pub bool);
impl Sink for NullSink {
    fn put<T: ToMysqlValue>(&mut self, v: T) -> io::Result<()> {
        self.0 = v.is_null();
        Ok(())
    }
}

/// `Val` itself as a `ToMysqlValue` (what a shim with its own value enum does), so that
/// heterogeneous rows can go through `write_row`.
impl ToMysqlValue for Val {
    fn to_mysql_text<W: Write>(&self, w: &mut W) -> io::Result<()> {
        let mut buf = Vec::new();
        dispatch(self, &mut TextSink(&mut buf))?;
        w.write_all(&buf)
    }
    fn to_mysql_bin<W: Write>(&self, w: &mut W, c: &Column) -> io::Result<()> {
        let mut buf = Vec::new();
        dispatch(self, &mut BinSink { out: &mut buf, col: c })?;
        w.write_all(&buf)
    }
    fn is_null(&self) -> bool {
        let mut s = NullSink(false);
        let _ = dispatch(self, &mut s);
        s.0
    }
}

#[derive(Clone, Debug, PartialEq, Eq, Serialize, Deserialize)]
pub struct ColSpec {
    pub table: String,
    pub name: String,
    pub coltype: u8,
    pub flags: u16,
}

impl ColSpec {
    pub fn simple(name: &str, coltype: u8, flags: u16) -> ColSpec {
        ColSpec { table: "t".into(), name: name.into(), coltype, flags }
    }
    pub fn to_column(&self) -> Column {
        Column {
            table: self.table.clone(),
            column: self.name.clone(),
            coltype: coltype_from_u8(self.coltype),
            colflags: ColumnFlags::from_bits_truncate(self.flags),
        }
    }
    pub fn unsigned(&self) -> bool {
        self.flags & crate::wire::FLAG_UNSIGNED != 0
    }
    pub fn not_null(&self) -> bool {
        self.flags & crate::wire::FLAG_NOT_NULL != 0
    }
}

/// every column type code mysql_common 0.31 defines (the `ColumnType` enum; 14 = NEWDATE has no
/// `TryFrom<u8>` arm there but is a public variant)
pub const ALL_COLTYPES: [u8; 33] = [
    0, 1, 2, 3, 4, 5, 6, 7, 8, 9, 10, 11, 12, 13, 14, 15, 16, 17, 18, 19, 20, 243, 245, 246, 247, 248, 249, 250, 251, 252, 253, 254, 255,
];

pub fn coltype_from_u8(t: u8) -> ColumnType {
    if t == 14 {
        return ColumnType::MYSQL_TYPE_NEWDATE;
    }
    ColumnType::try_from(t).unwrap_or_else(|_| panic!("harness: unknown column type {}", t))
}
