//! Oracle self-test: the reference pieces (framer, length-encoded integers, parameter encoder,
//! value decoders) must agree among themselves and with mysql_common's independent
//! implementations before any verdict is trusted.  A disagreement is an infrastructure error
//! (exit 2), never a violation.

use crate::wire::*;
use mysql_common::io::ParseBuf;
use mysql_common::proto::{MyDeserialize, MySerialize};
use mysql_common::value::{BinValue, Value as MyValue, ValueDeserializer};

pub fn run() -> Result<(), String> {
    // 1. framer round trip around the packet limit
    for &len in &[0usize, 1, 5, MAX_PAYLOAD - 1, MAX_PAYLOAD, MAX_PAYLOAD + 1, 2 * MAX_PAYLOAD] {
        let payload: Vec<u8> = (0..len).map(|i| (i * 7 + 3) as u8).collect();
        let mut framed = Vec::new();
        let last = frame_into(&mut framed, &payload, 250);
        let (phys, used) = split_packets(&framed);
        if used != framed.len() {
            return Err(format!("framer: {} bytes not consumed for payload {}", framed.len() - used, len));
        }
        if phys.len() != frame_count(len) {
            return Err(format!("framer: {} packets for payload {}, frame_count says {}", phys.len(), len, frame_count(len)));
        }
        let (msgs, n) = reassemble(&framed, &phys);
        if n != phys.len() || msgs.len() != 1 || msgs[0].payload != payload {
            return Err(format!("framer: reassembly of payload {} failed", len));
        }
        if phys.last().unwrap().seq != last || phys[0].seq != 250 {
            return Err("framer: sequence ids".into());
        }
        // mysql_common's codec must accept the same framing
        let mut codec = mysql_common::proto::codec::PacketCodec::default();
        codec.max_allowed_packet = 1 << 30;
        let mut src = bytes_mut(&framed);
        let mut dst = Vec::new();
        // the codec tracks sequence ids from 0: feed it a stream starting at id 0 instead
        let mut framed0 = Vec::new();
        frame_into(&mut framed0, &payload, 0);
        src.clear();
        src.extend_from_slice(&framed0);
        match codec.decode(&mut src, &mut dst) {
            Ok(true) => {
                if dst != payload {
                    return Err(format!("framer: mysql_common's codec reassembles payload {} differently", len));
                }
            }
            other => return Err(format!("framer: mysql_common's codec does not accept the framing of payload {}: {:?}", len, other.map_err(|e| e.to_string()))),
        }
    }
    // 2. length-encoded integers over the class boundaries
    for &v in &[0u64, 250, 251, 252, 65_535, 65_536, (1 << 24) - 1, 1 << 24, u32::MAX as u64, u64::MAX] {
        let mut mine = Vec::new();
        put_lenenc_int(&mut mine, v);
        let mut theirs = Vec::new();
        mysql_common::io::WriteMysqlExt::write_lenenc_int(&mut theirs, v).map_err(|e| e.to_string())?;
        if mine != theirs {
            return Err(format!("lenenc int {}: {:?} vs mysql_common {:?}", v, mine, theirs));
        }
        let mut c = Cur::new(&mine);
        if c.lenenc_int()? != v || !c.done() {
            return Err(format!("lenenc int {} does not round trip", v));
        }
    }
    // 3. parameter value encoder vs mysql_common's binary value serializer, and my binary value
    //    decoder vs mysql_common's deserializer
    let samples: Vec<(MyValue, Param)> = vec![
        (MyValue::Int(-5), Param { coltype: T_LONGLONG, unsigned: false, value: PVal::Int((-5i64) as u64) }),
        (MyValue::UInt(u64::MAX), Param { coltype: T_LONGLONG, unsigned: true, value: PVal::Int(u64::MAX) }),
        (MyValue::Double(1.5), Param { coltype: T_DOUBLE, unsigned: false, value: PVal::F64(1.5f64.to_bits()) }),
        (MyValue::Float(-2.25), Param { coltype: T_FLOAT, unsigned: false, value: PVal::F32((-2.25f32).to_bits()) }),
        (MyValue::Bytes(vec![1; 300]), Param { coltype: T_VAR_STRING, unsigned: false, value: PVal::Bytes(vec![1; 300]) }),
        (MyValue::Date(2024, 2, 29, 0, 0, 0, 0), Param { coltype: T_DATETIME, unsigned: false, value: PVal::Date(2024, 2, 29, 0, 0, 0, 0, 4) }),
        (MyValue::Date(2024, 2, 29, 23, 59, 58, 0), Param { coltype: T_DATETIME, unsigned: false, value: PVal::Date(2024, 2, 29, 23, 59, 58, 0, 7) }),
        (MyValue::Date(1, 1, 1, 1, 1, 1, 999_999), Param { coltype: T_DATETIME, unsigned: false, value: PVal::Date(1, 1, 1, 1, 1, 1, 999_999, 11) }),
        (MyValue::Time(false, 0, 0, 0, 0, 0), Param { coltype: T_TIME, unsigned: false, value: PVal::Time(false, 0, 0, 0, 0, 0, 0) }),
        (MyValue::Time(true, 3, 4, 5, 6, 0), Param { coltype: T_TIME, unsigned: false, value: PVal::Time(true, 3, 4, 5, 6, 0, 8) }),
        (MyValue::Time(false, 3, 4, 5, 6, 7), Param { coltype: T_TIME, unsigned: false, value: PVal::Time(false, 3, 4, 5, 6, 7, 12) }),
    ];
    for (mv, p) in &samples {
        let mut mine = Vec::new();
        put_param_value(&mut mine, p);
        let mut theirs = Vec::new();
        mv.serialize(&mut theirs);
        if mine != theirs {
            return Err(format!("binary value encoder: {:?} -> {} but mysql_common -> {}", p, hex(&mine), hex(&theirs)));
        }
        // decoders
        let mut c = Cur::new(&mine);
        let got = parse_bin_value(&mut c, p.coltype, p.unsigned)?;
        if !c.done() {
            return Err(format!("binary value decoder leaves bytes for {:?}", p));
        }
        let coltype = mysql_common::constants::ColumnType::try_from(p.coltype).map_err(|e| e.to_string())?;
        let flags = if p.unsigned { mysql_common::constants::ColumnFlags::UNSIGNED_FLAG } else { mysql_common::constants::ColumnFlags::empty() };
        let mut buf = ParseBuf(&mine[..]);
        let theirs = ValueDeserializer::<BinValue>::deserialize((coltype, flags), &mut buf).map_err(|e| e.to_string())?.0;
        let same = match (&got, &theirs) {
            (BinVal::Int(a), MyValue::Int(b)) => a == b,
            (BinVal::UInt(a), MyValue::UInt(b)) => a == b,
            (BinVal::UInt(a), MyValue::Int(b)) => *b >= 0 && *a == *b as u64,
            (BinVal::F64(a), MyValue::Double(b)) => *a == b.to_bits(),
            (BinVal::F32(a), MyValue::Float(b)) => *a == b.to_bits(),
            (BinVal::Bytes(a), MyValue::Bytes(b)) => a == b,
            (BinVal::Date(y, m, d, h, mi, s, us, _), MyValue::Date(y2, m2, d2, h2, mi2, s2, us2)) => (y, m, d, h, mi, s, us) == (y2, m2, d2, h2, mi2, s2, us2),
            (BinVal::Time(n, d, h, m, s, us, _), MyValue::Time(n2, d2, h2, m2, s2, us2)) => (n, d, h, m, s, us) == (n2, d2, h2, m2, s2, us2),
            _ => false,
        };
        if !same {
            return Err(format!("binary value decoder: {:?} vs mysql_common {:?}", got, theirs));
        }
    }
    // 4. OK / ERR / EOF decoders on golden packets from the protocol documentation
    let ok = parse_ok(&[0x00, 0x00, 0x00, 0x02, 0x00, 0x00, 0x00])?;
    if ok.affected != 0 || ok.last_id != 0 || ok.status != 2 {
        return Err("OK golden packet".into());
    }
    let err = parse_err(b"\xff\x48\x04#HY000No tables used")?;
    if err.code != 1096 || err.state != b"HY000" || err.msg != b"No tables used" {
        return Err("ERR golden packet".into());
    }
    let eof = parse_eof(&[0xfe, 0x00, 0x00, 0x02, 0x00])?;
    if eof.status != 2 {
        return Err("EOF golden packet".into());
    }
    Ok(())
}

fn bytes_mut(b: &[u8]) -> bytes::BytesMut {
    let mut m = bytes::BytesMut::with_capacity(b.len());
    m.extend_from_slice(b);
    m
}
