//! Harness library: shared by the `vcheck` binary and the libFuzzer targets in /verif/fuzz.
#![allow(dead_code)]

pub mod conv;
#[macro_use]
pub mod engine;
pub mod gen;
pub mod gens;
pub mod model;
pub mod props;
pub mod selftest;
pub mod shim;
pub mod tlsfix;
pub mod tlspeer;
pub mod transport;
pub mod vals;
pub mod wire;
