//! Scripted in-memory transport: we choose every read() result, see every write()/flush(),
//! and can fail any operation.

use serde::{Deserialize, Serialize};
use std::cell::RefCell;
use std::io::{self, Read, Write};
use std::rc::Rc;

#[derive(Clone, Debug, PartialEq, Eq, Serialize, Deserialize)]
pub enum Fault {
    None,
    /// the inbound stream ends after k bytes
    EofAfter(usize),
    /// operation k (0-based over all read/write/flush calls) fails once
    ErrOnce(usize),
    /// operation k and every later one fails
    ErrFrom(usize),
    /// operation k, if it is a write, returns Ok(0); otherwise behaves like ErrOnce
    WriteZero(usize),
    /// operation k, if it is a read, fails once with ErrorKind::Interrupted (which a caller may
    /// legitimately retry); other operations are not disturbed
    InterruptedRead(usize),
}

#[derive(Clone, Debug, Default, PartialEq, Eq, Serialize, Deserialize)]
pub struct Schedule {
    /// read sizes, cycled (each >= 1)
    pub sizes: Vec<usize>,
    /// hot windows [start, end) of inbound offsets where `sizes` apply; outside them reads are
    /// `big` bytes (cut at the next window).  Empty => `sizes` apply everywhere.
    pub hot: Vec<(usize, usize)>,
    pub big: usize,
    /// accepted-prefix sizes for write(), cycled; 0 = accept everything
    pub write_accept: Vec<usize>,
}

impl Schedule {
    pub fn all_at_once() -> Self {
        Schedule { sizes: vec![usize::MAX / 2], hot: vec![], big: 0, write_accept: vec![] }
    }
    pub fn fixed(n: usize) -> Self {
        Schedule { sizes: vec![n.max(1)], hot: vec![], big: 0, write_accept: vec![] }
    }
}

#[derive(Clone, Copy, Debug, PartialEq, Eq)]
pub enum OpKind {
    Read,
    Write,
    Flush,
}

#[derive(Clone, Debug)]
pub struct Op {
    pub kind: OpKind,
    /// read: inbound position before; write: outbound length before; flush: outbound length
    pub at: usize,
    /// bytes transferred (read/write)
    pub n: usize,
    pub failed: bool,
    /// for reads: number of outbound bytes covered by the last flush when the read was issued
    pub flushed: usize,
}

/// A live client on the other end of the transport: consulted whenever the server wants more
/// input than is queued.  It is shown the server bytes flushed since the last call and returns
/// the bytes it sends in response.
pub trait Peer {
    fn exchange(&mut self, server_bytes: &[u8]) -> Vec<u8>;
    /// is the client still waiting for something from the server?
    fn waiting(&self) -> bool;
}

pub trait Gate {
    /// Given everything flushed so far, how many inbound bytes may the client have sent?
    fn released(&mut self, flushed: &[u8]) -> usize;
}

pub struct TState {
    pub inbound: Vec<u8>,
    pub pos: usize,
    pub sched: Schedule,
    pub size_i: usize,
    pub wacc_i: usize,
    pub out: Vec<u8>,
    pub flushed: usize,
    pub ops: Vec<Op>,
    pub fault: Fault,
    /// which io::ErrorKind injected errors carry (see `injected`)
    pub fault_kind: u8,
    pub fault_fired_at_op: Option<usize>,
    pub reads_at_eof: usize,
    pub gate: Option<Box<dyn Gate>>,
    pub peer: Option<Box<dyn Peer>>,
    pub peer_fed: usize,
    pub would_block: bool,
    pub eof_seen: bool,
    pub keep_ops: bool,
    pub n_ops: usize,
}

pub const WEDGE_MARKER: &str = "VERIF-WEDGE";

#[derive(Clone)]
pub struct Transport(pub Rc<RefCell<TState>>);

impl Transport {
    pub fn new(inbound: Vec<u8>, sched: Schedule, fault: Fault) -> Self {
        Transport(Rc::new(RefCell::new(TState {
            inbound,
            pos: 0,
            sched,
            size_i: 0,
            wacc_i: 0,
            out: Vec::new(),
            flushed: 0,
            ops: Vec::new(),
            fault,
            fault_kind: 0,
            fault_fired_at_op: None,
            reads_at_eof: 0,
            gate: None,
            peer: None,
            peer_fed: 0,
            would_block: false,
            eof_seen: false,
            keep_ops: true,
            n_ops: 0,
        })))
    }
}

fn injected(k: usize, kind: u8) -> io::Error {
    // (codes 5 and 6 are only used where the case says so: a blocking socket with a send/receive
    // timeout reports WouldBlock or TimedOut; Interrupted is what std's write_all/read_exact retry)
    let kind = match kind {
        1 => io::ErrorKind::UnexpectedEof,
        2 => io::ErrorKind::Other,
        3 => io::ErrorKind::BrokenPipe,
        4 => io::ErrorKind::TimedOut,
        5 => io::ErrorKind::WouldBlock,
        6 => io::ErrorKind::Interrupted,
        _ => io::ErrorKind::ConnectionReset,
    };
    io::Error::new(kind, format!("injected transport fault at op {}", k))
}

impl TState {
    fn fault_now(&mut self, kind: OpKind) -> Option<io::Result<usize>> {
        let k = self.n_ops;
        if let Fault::InterruptedRead(f) = self.fault {
            if f == k && kind == OpKind::Read {
                if self.fault_fired_at_op.is_none() {
                    self.fault_fired_at_op = Some(k);
                }
                return Some(Err(io::Error::new(io::ErrorKind::Interrupted, format!("injected EINTR at op {}", k))));
            }
            return None;
        }
        let hit = match self.fault {
            Fault::ErrOnce(f) => f == k,
            Fault::ErrFrom(f) => k >= f,
            Fault::WriteZero(f) => f == k,
            _ => false,
        };
        if !hit {
            return None;
        }
        if self.fault_fired_at_op.is_none() {
            self.fault_fired_at_op = Some(k);
        }
        if let (Fault::WriteZero(_), OpKind::Write) = (&self.fault, kind) {
            return Some(Ok(0));
        }
        Some(Err(injected(k, self.fault_kind)))
    }
    fn log(&mut self, op: Op) {
        self.n_ops += 1;
        if self.keep_ops {
            self.ops.push(op);
        }
    }
    fn avail_end(&mut self) -> usize {
        let mut end = self.inbound.len();
        if let Fault::EofAfter(k) = self.fault {
            end = end.min(k);
        }
        if self.pos >= end {
            return end;
        }
        if let Some(g) = self.gate.as_mut() {
            let rel = g.released(&self.out[..self.flushed]);
            if rel < end {
                if self.pos >= rel {
                    // the client is waiting for a reply the server has not flushed
                    self.would_block = true;
                }
                end = rel.max(self.pos);
            }
        }
        end
    }
}

impl Read for Transport {
    fn read(&mut self, buf: &mut [u8]) -> io::Result<usize> {
        let mut s = self.0.borrow_mut();
        let s = &mut *s;
        let at = s.pos;
        let flushed = s.flushed;
        if let Some(r) = s.fault_now(OpKind::Read) {
            s.log(Op { kind: OpKind::Read, at, n: 0, failed: true, flushed });
            return r;
        }
        if buf.is_empty() {
            s.log(Op { kind: OpKind::Read, at, n: 0, failed: false, flushed });
            return Ok(0);
        }
        if s.pos >= s.inbound.len() && s.peer.is_some() {
            // the client reacts to what has been flushed to it
            let mut peer = s.peer.take().unwrap();
            let produced = peer.exchange(&s.out[s.peer_fed..s.flushed]);
            s.peer_fed = s.flushed;
            if produced.is_empty() && peer.waiting() {
                s.would_block = true;
            }
            s.inbound.extend_from_slice(&produced);
            s.peer = Some(peer);
        }
        let end = s.avail_end();
        let left = end - s.pos;
        if left == 0 {
            s.eof_seen = true;
            s.reads_at_eof += 1;
            s.log(Op { kind: OpKind::Read, at, n: 0, failed: false, flushed });
            if s.reads_at_eof > 200 {
                panic!("{}: server keeps reading after end of stream", WEDGE_MARKER);
            }
            return Ok(0);
        }
        // size from the schedule
        let mut want;
        let in_hot = s.sched.hot.is_empty() || s.sched.hot.iter().any(|&(a, b)| s.pos >= a && s.pos < b);
        if in_hot {
            let sizes = &s.sched.sizes;
            want = if sizes.is_empty() { usize::MAX / 2 } else { sizes[s.size_i % sizes.len()].max(1) };
            s.size_i += 1;
        } else {
            want = s.sched.big.max(1);
            // stop at the next hot window
            if let Some(&(a, _)) = s.sched.hot.iter().filter(|&&(a, _)| a > s.pos).min_by_key(|&&(a, _)| a) {
                want = want.min(a - s.pos);
            }
        }
        let n = want.min(left).min(buf.len());
        buf[..n].copy_from_slice(&s.inbound[s.pos..s.pos + n]);
        s.pos += n;
        s.log(Op { kind: OpKind::Read, at, n, failed: false, flushed });
        Ok(n)
    }
}

impl Write for Transport {
    fn write(&mut self, buf: &[u8]) -> io::Result<usize> {
        let mut s = self.0.borrow_mut();
        let s = &mut *s;
        let at = s.out.len();
        if let Some(r) = s.fault_now(OpKind::Write) {
            s.log(Op { kind: OpKind::Write, at, n: 0, failed: true, flushed: s.flushed });
            return r;
        }
        let mut n = buf.len();
        if !s.sched.write_accept.is_empty() && n > 0 {
            let a = s.sched.write_accept[s.wacc_i % s.sched.write_accept.len()];
            s.wacc_i += 1;
            if a > 0 {
                n = n.min(a);
            }
        }
        s.out.extend_from_slice(&buf[..n]);
        s.log(Op { kind: OpKind::Write, at, n, failed: false, flushed: s.flushed });
        if s.n_ops > 50_000_000 {
            panic!("{}: operation budget exhausted", WEDGE_MARKER);
        }
        Ok(n)
    }
    fn flush(&mut self) -> io::Result<()> {
        let mut s = self.0.borrow_mut();
        let s = &mut *s;
        let at = s.out.len();
        if let Some(r) = s.fault_now(OpKind::Flush) {
            s.log(Op { kind: OpKind::Flush, at, n: 0, failed: true, flushed: s.flushed });
            return r.map(|_| ());
        }
        s.flushed = s.out.len();
        s.log(Op { kind: OpKind::Flush, at, n: 0, failed: false, flushed: s.flushed });
        Ok(())
    }
}
