//! A MySQL client that upgrades to TLS (rustls ClientConnection), embedded in the scripted
//! transport: it reacts to flushed server bytes and produces the client byte stream.

use crate::conv::complete_replies;
use crate::transport::Peer;
use crate::wire::*;
use rustls::client::danger::{HandshakeSignatureValid, ServerCertVerified, ServerCertVerifier};
use rustls::pki_types::{CertificateDer, ServerName, UnixTime};
use rustls::{ClientConfig, ClientConnection, DigitallySignedStruct, SignatureScheme};
use std::cell::RefCell;
use std::io::{Read, Write};
use std::rc::Rc;
use std::sync::Arc;

#[derive(Debug)]
struct AcceptAny(Arc<rustls::crypto::CryptoProvider>);

impl ServerCertVerifier for AcceptAny {
    fn verify_server_cert(&self, _: &CertificateDer<'_>, _: &[CertificateDer<'_>], _: &ServerName<'_>, _: &[u8], _: UnixTime) -> Result<ServerCertVerified, rustls::Error> {
        Ok(ServerCertVerified::assertion())
    }
    fn verify_tls12_signature(&self, message: &[u8], cert: &CertificateDer<'_>, dss: &DigitallySignedStruct) -> Result<HandshakeSignatureValid, rustls::Error> {
        rustls::crypto::verify_tls12_signature(message, cert, dss, &self.0.signature_verification_algorithms)
    }
    fn verify_tls13_signature(&self, message: &[u8], cert: &CertificateDer<'_>, dss: &DigitallySignedStruct) -> Result<HandshakeSignatureValid, rustls::Error> {
        rustls::crypto::verify_tls13_signature(message, cert, dss, &self.0.signature_verification_algorithms)
    }
    fn supported_verify_schemes(&self) -> Vec<SignatureScheme> {
        self.0.signature_verification_algorithms.supported_schemes()
    }
}

pub fn client_config(tls13: bool, client_cert: bool, alpn_pad: usize) -> Arc<ClientConfig> {
    let provider = Arc::new(rustls::crypto::ring::default_provider());
    let versions: &[&rustls::SupportedProtocolVersion] = if tls13 { &[&rustls::version::TLS13] } else { &[&rustls::version::TLS12] };
    let b = ClientConfig::builder_with_provider(provider.clone())
        .with_protocol_versions(versions)
        .expect("versions")
        .dangerous()
        .with_custom_certificate_verifier(Arc::new(AcceptAny(provider)));
    let fx = crate::tlsfix::fixtures();
    let mut cfg = if client_cert {
        b.with_client_auth_cert(vec![CertificateDer::from(fx.client_cert.clone())], crate::tlsfix::key(&fx.client_key)).expect("client cert")
    } else {
        b.with_no_client_auth()
    };
    // a long ALPN list makes the ClientHello as large as real ones get (session tickets,
    // post-quantum key shares): `alpn_pad` bytes of protocol names
    let mut left = alpn_pad;
    let mut k = 0u32;
    while left > 0 {
        let n = left.min(200);
        let mut name = format!("p{:04}-", k).into_bytes();
        name.resize(n.max(name.len()).min(255), b'x');
        left = left.saturating_sub(name.len() + 1);
        cfg.alpn_protocols.push(name);
        k += 1;
    }
    Arc::new(cfg)
}

#[derive(Default)]
pub struct PeerLog {
    /// plaintext the server sent before the upgrade (the greeting)
    pub pre_tls: Vec<u8>,
    /// decrypted application data from the server
    pub decrypted: Vec<u8>,
    pub tls_error: Option<String>,
    pub handshake_done: bool,
    pub negotiated_tls13: Option<bool>,
    /// length of the first client flight after the SSLRequest (the ClientHello records)
    pub client_hello_len: usize,
    pub sent_messages: usize,
    /// server bytes received after the greeting (must all be TLS records)
    pub post_greeting: Vec<u8>,
}

pub struct TlsClientPeer {
    pub log: Rc<RefCell<PeerLog>>,
    client: ClientConnection,
    upgraded: bool,
    /// framed MySQL packets to send through TLS, in order: handshake response, then commands
    messages: Vec<Vec<u8>>,
    kinds: Vec<ReplyKind>,
    lockstep: bool,
    sent: usize,
    ssl_request: Vec<u8>,
    greeting_seen: bool,
    closed: bool,
    /// minor version to put into the record headers of the first flight (the ClientHello): the
    /// field is not part of the handshake transcript, clients differ in it (3.1 is what rustls
    /// and OpenSSL write, JSSE writes 3.3) and a server has to accept any 3.x there
    pub hello_record_minor: Option<u8>,
}

impl TlsClientPeer {
    pub fn new(cfg: Arc<ClientConfig>, ssl_request: Vec<u8>, messages: Vec<Vec<u8>>, kinds: Vec<ReplyKind>, lockstep: bool) -> (Self, Rc<RefCell<PeerLog>>) {
        let mut client = ClientConnection::new(cfg, ServerName::try_from("localhost").unwrap()).expect("client connection");
        client.set_buffer_limit(None);
        let log = Rc::new(RefCell::new(PeerLog::default()));
        (TlsClientPeer { log: log.clone(), client, upgraded: false, messages, kinds, lockstep, sent: 0, ssl_request, greeting_seen: false, closed: false, hello_record_minor: None }, log)
    }

    fn pump_app_data(&mut self) {
        // how many messages may have been sent by now?
        let allowed = if self.lockstep {
            // replies to messages 0..n complete => message n may be sent
            let log = self.log.borrow();
            // prepend a fake greeting so that complete_replies' framing (greeting first) applies
            let mut stream = Vec::new();
            frame_into(&mut stream, &[10, 0], 0);
            stream.extend_from_slice(&log.decrypted);
            complete_replies(&stream, &self.kinds).unwrap_or(0) + 1
        } else {
            self.messages.len()
        };
        while self.sent < allowed.min(self.messages.len()) {
            let m = self.messages[self.sent].clone();
            let _ = self.client.writer().write_all(&m);
            self.sent += 1;
        }
        self.log.borrow_mut().sent_messages = self.sent;
    }
}

impl Peer for TlsClientPeer {
    fn exchange(&mut self, server_bytes: &[u8]) -> Vec<u8> {
        let mut out = Vec::new();
        if !self.upgraded {
            self.log.borrow_mut().pre_tls.extend_from_slice(server_bytes);
            let pre = self.log.borrow().pre_tls.clone();
            let (phys, used) = split_packets(&pre);
            if phys.is_empty() {
                return out; // greeting not complete yet
            }
            self.greeting_seen = true;
            // anything after the greeting packet already belongs to the TLS stream
            let extra = pre[used..].to_vec();
            self.log.borrow_mut().pre_tls.truncate(used);
            self.upgraded = true;
            out.extend_from_slice(&self.ssl_request);
            self.pump_app_data();
            let before = out.len();
            while self.client.wants_write() {
                if self.client.write_tls(&mut out).is_err() {
                    break;
                }
            }
            if let Some(minor) = self.hello_record_minor {
                let mut p = before;
                while p + 5 <= out.len() && out[p] == 0x16 && out[p + 1] == 3 {
                    out[p + 2] = minor;
                    p += 5 + u16::from_be_bytes([out[p + 3], out[p + 4]]) as usize;
                }
            }
            self.log.borrow_mut().client_hello_len = out.len() - before;
            if extra.is_empty() {
                return out;
            }
            // fall through with the extra bytes
            let mut more = self.exchange_tls(&extra);
            out.append(&mut more);
            return out;
        }
        let mut more = self.exchange_tls(server_bytes);
        out.append(&mut more);
        out
    }
    fn waiting(&self) -> bool {
        // the client is owed something if it has unanswered messages or the handshake is unfinished
        let log = self.log.borrow();
        if log.tls_error.is_some() {
            return false;
        }
        if !self.greeting_seen {
            return true;
        }
        let mut stream = Vec::new();
        frame_into(&mut stream, &[10, 0], 0);
        stream.extend_from_slice(&log.decrypted);
        let done = complete_replies(&stream, &self.kinds).unwrap_or(0);
        !self.closed && (done < self.sent || self.sent < self.messages.len())
    }
}

impl TlsClientPeer {
    fn exchange_tls(&mut self, server_bytes: &[u8]) -> Vec<u8> {
        let mut out = Vec::new();
        self.log.borrow_mut().post_greeting.extend_from_slice(server_bytes);
        let mut rd = server_bytes;
        while !rd.is_empty() {
            match self.client.read_tls(&mut rd) {
                Ok(0) => break,
                Ok(_) => {}
                Err(e) => {
                    self.log.borrow_mut().tls_error.get_or_insert(format!("read_tls: {}", e));
                    return out;
                }
            }
            if let Err(e) = self.client.process_new_packets() {
                self.log.borrow_mut().tls_error.get_or_insert(format!("TLS error: {}", e));
                // let rustls emit its alert
                while self.client.wants_write() {
                    if self.client.write_tls(&mut out).is_err() {
                        break;
                    }
                }
                return out;
            }
            // take the decrypted bytes out as they arrive (rustls bounds its plaintext buffer)
            let mut buf = [0u8; 16_384];
            loop {
                match self.client.reader().read(&mut buf) {
                    Ok(0) => break,
                    Ok(n) => self.log.borrow_mut().decrypted.extend_from_slice(&buf[..n]),
                    Err(_) => break, // WouldBlock: nothing more for now
                }
            }
        }
        if !self.client.is_handshaking() {
            let mut log = self.log.borrow_mut();
            log.handshake_done = true;
            log.negotiated_tls13 = self.client.protocol_version().map(|v| v == rustls::ProtocolVersion::TLSv1_3);
        }
        self.pump_app_data();
        if !self.closed && self.sent == self.messages.len() && !self.client.is_handshaking() {
            // everything answered: close the TLS session cleanly, as a client does before it
            // closes the socket
            let done = {
                let log = self.log.borrow();
                let mut stream = Vec::new();
                frame_into(&mut stream, &[10, 0], 0);
                stream.extend_from_slice(&log.decrypted);
                complete_replies(&stream, &self.kinds).unwrap_or(0)
            };
            if done >= self.messages.len() {
                self.client.send_close_notify();
                self.closed = true;
            }
        }
        while self.client.wants_write() {
            if self.client.write_tls(&mut out).is_err() {
                break;
            }
        }
        out
    }
}

/// Do `bytes` consist of whole TLS records only?
pub fn all_tls_records(bytes: &[u8]) -> Result<usize, String> {
    let mut p = 0;
    let mut n = 0;
    while p < bytes.len() {
        if bytes.len() - p < 5 {
            return Err(format!("{} trailing bytes that are not a TLS record header", bytes.len() - p));
        }
        let t = bytes[p];
        let ver = (bytes[p + 1], bytes[p + 2]);
        let len = u16::from_be_bytes([bytes[p + 3], bytes[p + 4]]) as usize;
        if !(20..=23).contains(&t) || ver.0 != 3 || ver.1 > 4 || len > 16_384 + 2048 {
            return Err(format!("bytes at offset {} are not a TLS record (type {}, version {}.{}, length {})", p, t, ver.0, ver.1, len));
        }
        if bytes.len() - p - 5 < len {
            return Err(format!("TLS record at offset {} is truncated", p));
        }
        p += 5 + len;
        n += 1;
    }
    Ok(n)
}
