//! Reference client side of the MySQL client/server protocol, written from the protocol
//! documentation; shares no code with msql-srv.

use serde::{Deserialize, Serialize};

pub const MAX_PAYLOAD: usize = 0xFF_FFFF;

// capability bits
pub const CAP_LONG_PASSWORD: u32 = 1;
pub const CAP_CONNECT_WITH_DB: u32 = 8;
pub const CAP_PROTOCOL_41: u32 = 0x200;
pub const CAP_SSL: u32 = 0x800;
pub const CAP_TRANSACTIONS: u32 = 0x2000;
pub const CAP_SECURE_CONNECTION: u32 = 0x8000;
pub const CAP_MULTI_STATEMENTS: u32 = 1 << 16;
pub const CAP_MULTI_RESULTS: u32 = 1 << 17;
pub const CAP_PS_MULTI_RESULTS: u32 = 1 << 18;
pub const CAP_PLUGIN_AUTH: u32 = 1 << 19;
pub const CAP_DEPRECATE_EOF: u32 = 1 << 24;
/// capability bits that change neither the layout of the handshake response nor the format of any
/// later packet (so a server that starts honouring them still talks the dialect our decoders read):
/// LONG_PASSWORD, FOUND_ROWS, LONG_FLAG, NO_SCHEMA, ODBC, LOCAL_FILES, IGNORE_SPACE, INTERACTIVE,
/// IGNORE_SIGPIPE, TRANSACTIONS, RESERVED, MULTI_STATEMENTS, MULTI_RESULTS, PS_MULTI_RESULTS,
/// CAN_HANDLE_EXPIRED_PASSWORDS, REMEMBER_OPTIONS
pub const CAP_FORMAT_NEUTRAL: u32 = 1 | 2 | 4 | 16 | 64 | 128 | 256 | 1024 | 4096 | 0x2000 | 0x4000 | (1 << 16) | (1 << 17) | (1 << 18) | (1 << 22) | (1 << 31);

pub const STATUS_MORE_RESULTS: u16 = 0x0008;

// command bytes
pub const COM_QUIT: u8 = 0x01;
pub const COM_INIT_DB: u8 = 0x02;
pub const COM_QUERY: u8 = 0x03;
pub const COM_FIELD_LIST: u8 = 0x04;
pub const COM_PING: u8 = 0x0e;
pub const COM_STMT_PREPARE: u8 = 0x16;
pub const COM_STMT_EXECUTE: u8 = 0x17;
pub const COM_STMT_SEND_LONG_DATA: u8 = 0x18;
pub const COM_STMT_CLOSE: u8 = 0x19;

// column types
pub const T_DECIMAL: u8 = 0;
pub const T_TINY: u8 = 1;
pub const T_SHORT: u8 = 2;
pub const T_LONG: u8 = 3;
pub const T_FLOAT: u8 = 4;
pub const T_DOUBLE: u8 = 5;
pub const T_NULL: u8 = 6;
pub const T_TIMESTAMP: u8 = 7;
pub const T_LONGLONG: u8 = 8;
pub const T_INT24: u8 = 9;
pub const T_DATE: u8 = 10;
pub const T_TIME: u8 = 11;
pub const T_DATETIME: u8 = 12;
pub const T_YEAR: u8 = 13;
pub const T_VARCHAR: u8 = 15;
pub const T_BIT: u8 = 16;
pub const T_JSON: u8 = 245;
pub const T_NEWDECIMAL: u8 = 246;
pub const T_ENUM: u8 = 247;
pub const T_SET: u8 = 248;
pub const T_TINY_BLOB: u8 = 249;
pub const T_MEDIUM_BLOB: u8 = 250;
pub const T_LONG_BLOB: u8 = 251;
pub const T_BLOB: u8 = 252;
pub const T_VAR_STRING: u8 = 253;
pub const T_STRING: u8 = 254;
pub const T_GEOMETRY: u8 = 255;

pub const BYTES_TYPES: [u8; 14] = [
    T_STRING, T_VAR_STRING, T_BLOB, T_TINY_BLOB, T_MEDIUM_BLOB, T_LONG_BLOB, T_SET, T_ENUM, T_DECIMAL, T_VARCHAR, T_BIT,
    T_NEWDECIMAL, T_GEOMETRY, T_JSON,
];

pub const FLAG_NOT_NULL: u16 = 1;
pub const FLAG_UNSIGNED: u16 = 32;

pub fn is_bytes_type(t: u8) -> bool {
    BYTES_TYPES.contains(&t)
}

// ------------------------------------------------------------------------------------------
// primitive encoders

pub fn put_lenenc_int(out: &mut Vec<u8>, v: u64) {
    if v < 251 {
        out.push(v as u8);
    } else if v < 65536 {
        out.push(0xfc);
        out.extend_from_slice(&(v as u16).to_le_bytes());
    } else if v < (1 << 24) {
        out.push(0xfd);
        out.extend_from_slice(&(v as u32).to_le_bytes()[..3]);
    } else {
        out.push(0xfe);
        out.extend_from_slice(&v.to_le_bytes());
    }
}

pub fn put_lenenc_bytes(out: &mut Vec<u8>, b: &[u8]) {
    put_lenenc_int(out, b.len() as u64);
    out.extend_from_slice(b);
}

/// Frame a logical payload into physical packets starting at sequence id `seq`.
/// Returns the sequence id of the last packet written.
pub fn frame_into(out: &mut Vec<u8>, payload: &[u8], seq: u8) -> u8 {
    let mut seq = seq;
    let mut rest = payload;
    loop {
        let n = rest.len().min(MAX_PAYLOAD);
        out.extend_from_slice(&(n as u32).to_le_bytes()[..3]);
        out.push(seq);
        out.extend_from_slice(&rest[..n]);
        rest = &rest[n..];
        if n < MAX_PAYLOAD {
            return seq;
        }
        seq = seq.wrapping_add(1);
    }
}

/// number of physical packets `frame_into` produces
pub fn frame_count(len: usize) -> usize {
    len / MAX_PAYLOAD + 1
}

// ------------------------------------------------------------------------------------------
// cursor for decoding

#[derive(Clone)]
pub struct Cur<'a> {
    pub b: &'a [u8],
    pub p: usize,
}

impl<'a> Cur<'a> {
    pub fn new(b: &'a [u8]) -> Self {
        Cur { b, p: 0 }
    }
    pub fn left(&self) -> usize {
        self.b.len() - self.p
    }
    pub fn done(&self) -> bool {
        self.p >= self.b.len()
    }
    pub fn u8(&mut self) -> Result<u8, String> {
        let v = *self.b.get(self.p).ok_or("truncated (u8)")?;
        self.p += 1;
        Ok(v)
    }
    pub fn take(&mut self, n: usize) -> Result<&'a [u8], String> {
        if self.left() < n {
            return Err(format!("truncated (need {} have {})", n, self.left()));
        }
        let s = &self.b[self.p..self.p + n];
        self.p += n;
        Ok(s)
    }
    pub fn u16(&mut self) -> Result<u16, String> {
        let s = self.take(2)?;
        Ok(u16::from_le_bytes([s[0], s[1]]))
    }
    pub fn u24(&mut self) -> Result<u32, String> {
        let s = self.take(3)?;
        Ok(u32::from_le_bytes([s[0], s[1], s[2], 0]))
    }
    pub fn u32(&mut self) -> Result<u32, String> {
        let s = self.take(4)?;
        Ok(u32::from_le_bytes([s[0], s[1], s[2], s[3]]))
    }
    pub fn u64(&mut self) -> Result<u64, String> {
        let s = self.take(8)?;
        let mut a = [0u8; 8];
        a.copy_from_slice(s);
        Ok(u64::from_le_bytes(a))
    }
    /// length-encoded integer; `None` for the 0xFB NULL marker
    pub fn lenenc(&mut self) -> Result<Option<u64>, String> {
        let f = self.u8()?;
        Ok(Some(match f {
            0..=0xfa => f as u64,
            0xfb => return Ok(None),
            0xfc => self.u16()? as u64,
            0xfd => self.u24()? as u64,
            0xfe => self.u64()?,
            0xff => return Err("0xFF is not a length-encoded integer".into()),
        }))
    }
    pub fn lenenc_int(&mut self) -> Result<u64, String> {
        self.lenenc()?.ok_or_else(|| "unexpected NULL marker in length-encoded integer".to_string())
    }
    pub fn lenenc_bytes(&mut self) -> Result<Option<&'a [u8]>, String> {
        match self.lenenc()? {
            None => Ok(None),
            Some(n) => {
                if n > self.left() as u64 {
                    return Err(format!("length-encoded string of {} bytes exceeds packet ({} left)", n, self.left()));
                }
                Ok(Some(self.take(n as usize)?))
            }
        }
    }
    pub fn nul_str(&mut self) -> Result<&'a [u8], String> {
        let rest = &self.b[self.p..];
        let i = rest.iter().position(|&c| c == 0).ok_or("missing NUL terminator")?;
        self.p += i + 1;
        Ok(&rest[..i])
    }
    pub fn rest(&mut self) -> &'a [u8] {
        let s = &self.b[self.p..];
        self.p = self.b.len();
        s
    }
}

// ------------------------------------------------------------------------------------------
// physical packets and logical messages

#[derive(Clone, Debug)]
pub struct Phys {
    pub seq: u8,
    pub start: usize, // offset of the payload in the stream
    pub len: usize,
}

/// Split a byte stream into physical packets.  Returns the packets wholly contained and the
/// number of bytes consumed (a partial trailing packet is left unconsumed).
pub fn split_packets(bytes: &[u8]) -> (Vec<Phys>, usize) {
    let mut v = Vec::new();
    let mut p = 0;
    while bytes.len() - p >= 4 {
        let len = u32::from_le_bytes([bytes[p], bytes[p + 1], bytes[p + 2], 0]) as usize;
        if bytes.len() - p - 4 < len {
            break;
        }
        v.push(Phys { seq: bytes[p + 3], start: p + 4, len });
        p += 4 + len;
    }
    (v, p)
}

/// A logical message: one or more physical packets (all but the last of length 0xFFFFFF).
#[derive(Clone, Debug)]
pub struct Msg {
    pub first_phys: usize,
    pub n_phys: usize,
    pub payload: Vec<u8>,
}

/// Reassemble logical messages.  Returns messages and the number of physical packets consumed
/// (trailing 0xFFFFFF fragments without a terminator are left unconsumed).
pub fn reassemble(bytes: &[u8], phys: &[Phys]) -> (Vec<Msg>, usize) {
    let mut msgs = Vec::new();
    let mut i = 0;
    let mut consumed = 0;
    while i < phys.len() {
        let first = i;
        let mut payload = Vec::new();
        let mut complete = false;
        while i < phys.len() {
            let p = &phys[i];
            payload.extend_from_slice(&bytes[p.start..p.start + p.len]);
            i += 1;
            if p.len < MAX_PAYLOAD {
                complete = true;
                break;
            }
        }
        if !complete {
            break;
        }
        msgs.push(Msg { first_phys: first, n_phys: i - first, payload });
        consumed = i;
    }
    (msgs, consumed)
}

// ------------------------------------------------------------------------------------------
// server -> client decoders

#[derive(Clone, Debug, Serialize)]
pub struct Greeting {
    pub protocol: u8,
    pub version: Vec<u8>,
    pub conn_id: u32,
    pub caps: u32,
    pub charset: Option<u8>,
    pub status: Option<u16>,
    pub auth_len: u8,
}

pub fn parse_greeting(p: &[u8]) -> Result<Greeting, String> {
    let mut c = Cur::new(p);
    let protocol = c.u8()?;
    if protocol != 10 {
        return Err(format!("greeting protocol version {} != 10", protocol));
    }
    let version = c.nul_str()?.to_vec();
    let conn_id = c.u32()?;
    let _auth1 = c.take(8)?;
    let filler = c.u8()?;
    if filler != 0 {
        return Err("greeting filler after auth-plugin-data-part-1 is not 0".into());
    }
    let cap_lo = c.u16()? as u32;
    if c.done() {
        return Ok(Greeting { protocol, version, conn_id, caps: cap_lo, charset: None, status: None, auth_len: 0 });
    }
    let charset = c.u8()?;
    let status = c.u16()?;
    let cap_hi = c.u16()? as u32;
    let caps = cap_lo | (cap_hi << 16);
    let auth_len = c.u8()?;
    let _reserved = c.take(10)?;
    if caps & CAP_SECURE_CONNECTION != 0 {
        let n = std::cmp::max(13, auth_len as i32 - 8) as usize;
        let _auth2 = c.take(n)?;
    }
    if caps & CAP_PLUGIN_AUTH != 0 {
        // NUL terminated (some servers omit the terminator)
        let _ = c.rest();
    }
    // anything else that remains is tolerated (pre-5.5 servers send salt part 2 without flag)
    Ok(Greeting { protocol, version, conn_id, caps, charset: Some(charset), status: Some(status), auth_len })
}

#[derive(Clone, Debug, PartialEq, Eq, Serialize)]
pub struct OkPkt {
    pub affected: u64,
    pub last_id: u64,
    pub status: u16,
    pub warnings: u16,
}

pub fn parse_ok(p: &[u8]) -> Result<OkPkt, String> {
    let mut c = Cur::new(p);
    let h = c.u8()?;
    if h != 0 {
        return Err(format!("OK packet header 0x{:02x}", h));
    }
    let affected = c.lenenc_int()?;
    let last_id = c.lenenc_int()?;
    let status = c.u16()?;
    let warnings = c.u16()?;
    // info string: rest
    Ok(OkPkt { affected, last_id, status, warnings })
}

#[derive(Clone, Debug, PartialEq, Eq, Serialize)]
pub struct ErrPkt {
    pub code: u16,
    pub state: Vec<u8>,
    pub msg: Vec<u8>,
}

pub fn parse_err(p: &[u8]) -> Result<ErrPkt, String> {
    let mut c = Cur::new(p);
    let h = c.u8()?;
    if h != 0xff {
        return Err(format!("ERR packet header 0x{:02x}", h));
    }
    let code = c.u16()?;
    let marker = c.u8().map_err(|_| "ERR packet without SQLSTATE marker".to_string())?;
    if marker != b'#' {
        return Err(format!("ERR packet SQLSTATE marker is 0x{:02x}, not '#'", marker));
    }
    let state = c.take(5).map_err(|_| "ERR packet SQLSTATE shorter than 5 bytes".to_string())?.to_vec();
    let msg = c.rest().to_vec();
    Ok(ErrPkt { code, state, msg })
}

#[derive(Clone, Debug, PartialEq, Eq, Serialize)]
pub struct EofPkt {
    pub warnings: u16,
    pub status: u16,
}

pub fn is_eof(p: &[u8]) -> bool {
    !p.is_empty() && p[0] == 0xfe && p.len() < 9
}

pub fn parse_eof(p: &[u8]) -> Result<EofPkt, String> {
    if !is_eof(p) {
        return Err("not an EOF packet".into());
    }
    if p.len() != 5 {
        return Err(format!("EOF packet of {} bytes (4.1 protocol needs 5)", p.len()));
    }
    Ok(EofPkt { warnings: u16::from_le_bytes([p[1], p[2]]), status: u16::from_le_bytes([p[3], p[4]]) })
}

#[derive(Clone, Debug, PartialEq, Eq, Serialize, Deserialize)]
pub struct ColDef {
    pub table: Vec<u8>,
    pub name: Vec<u8>,
    pub coltype: u8,
    pub flags: u16,
}

pub fn parse_coldef(p: &[u8], field_list: bool) -> Result<ColDef, String> {
    let mut c = Cur::new(p);
    let catalog = c.lenenc_bytes()?.ok_or("NULL catalog")?;
    if catalog != b"def" {
        return Err(format!("column definition catalog {:?} != \"def\"", String::from_utf8_lossy(catalog)));
    }
    let _schema = c.lenenc_bytes()?.ok_or("NULL schema")?;
    let table = c.lenenc_bytes()?.ok_or("NULL table")?.to_vec();
    let _org_table = c.lenenc_bytes()?.ok_or("NULL org_table")?;
    let name = c.lenenc_bytes()?.ok_or("NULL name")?.to_vec();
    let _org_name = c.lenenc_bytes()?.ok_or("NULL org_name")?;
    let fixed = c.lenenc_int()?;
    if fixed != 0x0c {
        return Err(format!("column definition fixed-length field is {} (must be 0x0c)", fixed));
    }
    let _charset = c.u16()?;
    let _len = c.u32()?;
    let coltype = c.u8()?;
    let flags = c.u16()?;
    let _decimals = c.u8()?;
    let _filler = c.take(2)?;
    if field_list {
        // default value: lenenc string or NULL
        let _ = c.lenenc_bytes()?;
    }
    if !c.done() {
        return Err(format!("{} trailing bytes after column definition", c.left()));
    }
    Ok(ColDef { table, name, coltype, flags })
}

#[derive(Clone, Debug, PartialEq, Eq, Serialize)]
pub struct PrepOk {
    pub id: u32,
    pub ncols: u16,
    pub nparams: u16,
    pub warnings: u16,
}

pub fn parse_prepare_ok(p: &[u8]) -> Result<PrepOk, String> {
    let mut c = Cur::new(p);
    if c.u8()? != 0 {
        return Err("COM_STMT_PREPARE_OK status byte != 0".into());
    }
    let id = c.u32()?;
    let ncols = c.u16()?;
    let nparams = c.u16()?;
    let filler = c.u8()?;
    if filler != 0 {
        return Err("COM_STMT_PREPARE_OK filler != 0".into());
    }
    let warnings = c.u16()?;
    // (newer servers may append metadata_follows)
    Ok(PrepOk { id, ncols, nparams, warnings })
}

pub fn parse_text_row(p: &[u8], ncols: usize) -> Result<Vec<Option<Vec<u8>>>, String> {
    let mut c = Cur::new(p);
    let mut cells = Vec::with_capacity(ncols);
    for i in 0..ncols {
        let cell = c.lenenc_bytes().map_err(|e| format!("text row cell {}: {}", i, e))?;
        cells.push(cell.map(|b| b.to_vec()));
    }
    if !c.done() {
        return Err(format!("text row has {} trailing bytes after {} cells", c.left(), ncols));
    }
    Ok(cells)
}

#[derive(Clone, Debug, PartialEq, Serialize)]
pub enum BinVal {
    Null,
    Int(i64),
    UInt(u64),
    F32(u32),
    F64(u64),
    Bytes(Vec<u8>),
    /// year, month, day, hour, minute, second, micros, wire length (0/4/7/11)
    Date(u16, u8, u8, u8, u8, u8, u32, u8),
    /// negative, days, hours, minutes, seconds, micros, wire length (0/8/12)
    Time(bool, u32, u8, u8, u8, u32, u8),
}

pub fn parse_bin_value(c: &mut Cur<'_>, coltype: u8, unsigned: bool) -> Result<BinVal, String> {
    Ok(match coltype {
        T_TINY => {
            let b = c.u8()?;
            if unsigned {
                BinVal::UInt(b as u64)
            } else {
                BinVal::Int(b as i8 as i64)
            }
        }
        T_SHORT | T_YEAR => {
            let b = c.u16()?;
            if unsigned {
                BinVal::UInt(b as u64)
            } else {
                BinVal::Int(b as i16 as i64)
            }
        }
        T_LONG | T_INT24 => {
            let b = c.u32()?;
            if unsigned {
                BinVal::UInt(b as u64)
            } else {
                BinVal::Int(b as i32 as i64)
            }
        }
        T_LONGLONG => {
            let b = c.u64()?;
            if unsigned {
                BinVal::UInt(b)
            } else {
                BinVal::Int(b as i64)
            }
        }
        T_FLOAT => BinVal::F32(c.u32()?),
        T_DOUBLE => BinVal::F64(c.u64()?),
        T_DATE | T_DATETIME | T_TIMESTAMP => {
            let n = c.u8()?;
            match n {
                0 => BinVal::Date(0, 0, 0, 0, 0, 0, 0, 0),
                4 => BinVal::Date(c.u16()?, c.u8()?, c.u8()?, 0, 0, 0, 0, 4),
                7 => BinVal::Date(c.u16()?, c.u8()?, c.u8()?, c.u8()?, c.u8()?, c.u8()?, 0, 7),
                11 => BinVal::Date(c.u16()?, c.u8()?, c.u8()?, c.u8()?, c.u8()?, c.u8()?, c.u32()?, 11),
                _ => return Err(format!("illegal DATE/DATETIME length {}", n)),
            }
        }
        T_TIME => {
            let n = c.u8()?;
            match n {
                0 => BinVal::Time(false, 0, 0, 0, 0, 0, 0),
                8 => BinVal::Time(c.u8()? != 0, c.u32()?, c.u8()?, c.u8()?, c.u8()?, 0, 8),
                12 => BinVal::Time(c.u8()? != 0, c.u32()?, c.u8()?, c.u8()?, c.u8()?, c.u32()?, 12),
                _ => return Err(format!("illegal TIME length {}", n)),
            }
        }
        t if is_bytes_type(t) => match c.lenenc_bytes()? {
            Some(b) => BinVal::Bytes(b.to_vec()),
            None => return Err("NULL marker inside binary row value".into()),
        },
        t => return Err(format!("binary value of unsupported column type {}", t)),
    })
}

pub fn parse_bin_row(p: &[u8], cols: &[ColDef]) -> Result<Vec<BinVal>, String> {
    let mut c = Cur::new(p);
    let h = c.u8()?;
    if h != 0 {
        return Err(format!("binary row header 0x{:02x} != 0", h));
    }
    let n = cols.len();
    let bitmap = c.take((n + 7 + 2) / 8)?.to_vec();
    // bits 0 and 1 and bits beyond n+2 must be clear
    for bit in 0..bitmap.len() * 8 {
        let set = bitmap[bit / 8] & (1 << (bit % 8)) != 0;
        if set && (bit < 2 || bit >= n + 2) {
            return Err(format!("NULL bitmap has stray bit {} set (columns: {})", bit, n));
        }
    }
    let mut vals = Vec::with_capacity(n);
    for (i, col) in cols.iter().enumerate() {
        let bit = i + 2;
        if bitmap[bit / 8] & (1 << (bit % 8)) != 0 {
            vals.push(BinVal::Null);
        } else {
            let v = parse_bin_value(&mut c, col.coltype, col.flags & FLAG_UNSIGNED != 0)
                .map_err(|e| format!("binary row column {} (type {}): {}", i, col.coltype, e))?;
            vals.push(v);
        }
    }
    if !c.done() {
        return Err(format!("binary row has {} trailing bytes", c.left()));
    }
    Ok(vals)
}

// ------------------------------------------------------------------------------------------
// response state machine

#[derive(Clone, Copy, Debug, PartialEq, Eq, Serialize, Deserialize)]
pub enum ReplyKind {
    /// COM_QUERY: text resultsets
    Query,
    /// COM_STMT_EXECUTE: binary resultsets
    Execute,
    Prepare,
    /// OK or ERR (COM_INIT_DB, COM_PING, auth)
    OkOrErr,
    FieldList,
    /// COM_STMT_CLOSE, COM_STMT_SEND_LONG_DATA, COM_QUIT
    None,
}

#[derive(Clone, Debug, Serialize)]
pub enum Rows {
    Text(Vec<Vec<Option<Vec<u8>>>>),
    Bin(Vec<Vec<BinVal>>),
}

impl Rows {
    pub fn len(&self) -> usize {
        match self {
            Rows::Text(r) => r.len(),
            Rows::Bin(r) => r.len(),
        }
    }
}

#[derive(Clone, Debug, Serialize)]
pub enum Unit {
    Ok(OkPkt),
    Err(ErrPkt),
    Set { cols: Vec<ColDef>, rows: Rows, end_status: Option<u16>, end_err: Option<ErrPkt> },
    PrepareOk { ok: PrepOk, params: Vec<ColDef>, cols: Vec<ColDef> },
    FieldList { cols: Vec<ColDef> },
}

impl Unit {
    pub fn more_results(&self) -> bool {
        match self {
            Unit::Ok(o) => o.status & STATUS_MORE_RESULTS != 0,
            Unit::Set { end_status: Some(s), .. } => s & STATUS_MORE_RESULTS != 0,
            _ => false,
        }
    }
    pub fn brief(&self) -> String {
        match self {
            Unit::Ok(o) => format!("OK({},{}{})", o.affected, o.last_id, if o.status & STATUS_MORE_RESULTS != 0 { ",more" } else { "" }),
            Unit::Err(e) => format!("ERR({})", e.code),
            Unit::Set { cols, rows, end_status, end_err } => format!(
                "SET(cols={},rows={},{})",
                cols.len(),
                rows.len(),
                match (end_status, end_err) {
                    (Some(s), _) => if s & STATUS_MORE_RESULTS != 0 { "eof+more".to_string() } else { "eof".to_string() },
                    (_, Some(e)) => format!("err {}", e.code),
                    _ => "?".into(),
                }
            ),
            Unit::PrepareOk { ok, .. } => format!("PREPARE_OK(id={},params={},cols={})", ok.id, ok.nparams, ok.ncols),
            Unit::FieldList { cols } => format!("FIELDS({})", cols.len()),
        }
    }
}

#[derive(Clone, Debug, Serialize)]
pub struct Response {
    pub units: Vec<Unit>,
    /// index of the first logical message and number of messages used
    pub first_msg: usize,
    pub n_msgs: usize,
}

pub enum Need {
    /// the messages available so far end in the middle of a response
    More,
    Bad(String),
}

/// Decode exactly one response to a command of kind `kind` starting at message `at`.
pub fn read_response(msgs: &[Msg], at: usize, kind: ReplyKind) -> Result<Response, Need> {
    let mut i = at;
    let mut units = Vec::new();
    macro_rules! next {
        () => {{
            if i >= msgs.len() {
                return Err(Need::More);
            }
            let m = &msgs[i];
            i += 1;
            &m.payload[..]
        }};
    }
    macro_rules! bad {
        ($($a:tt)*) => { return Err(Need::Bad(format!($($a)*))) };
    }
    match kind {
        ReplyKind::None => {}
        ReplyKind::OkOrErr => {
            let p = next!();
            match p.first() {
                Some(0x00) => units.push(Unit::Ok(parse_ok(p).map_err(Need::Bad)?)),
                Some(0xff) => units.push(Unit::Err(parse_err(p).map_err(Need::Bad)?)),
                other => bad!("expected OK or ERR, got packet starting {:02x?} (len {})", other, p.len()),
            }
        }
        ReplyKind::Prepare => {
            let p = next!();
            match p.first() {
                Some(0xff) => units.push(Unit::Err(parse_err(p).map_err(Need::Bad)?)),
                Some(0x00) => {
                    let ok = parse_prepare_ok(p).map_err(Need::Bad)?;
                    let mut params = Vec::new();
                    for k in 0..ok.nparams {
                        let p = next!();
                        params.push(parse_coldef(p, false).map_err(|e| Need::Bad(format!("prepare param def {}: {}", k, e)))?);
                    }
                    if ok.nparams > 0 {
                        let p = next!();
                        parse_eof(p).map_err(|e| Need::Bad(format!("after prepare param defs: {}", e)))?;
                    }
                    let mut cols = Vec::new();
                    for k in 0..ok.ncols {
                        let p = next!();
                        cols.push(parse_coldef(p, false).map_err(|e| Need::Bad(format!("prepare column def {}: {}", k, e)))?);
                    }
                    if ok.ncols > 0 {
                        let p = next!();
                        parse_eof(p).map_err(|e| Need::Bad(format!("after prepare column defs: {}", e)))?;
                    }
                    units.push(Unit::PrepareOk { ok, params, cols });
                }
                other => bad!("expected PREPARE_OK or ERR, got {:02x?}", other),
            }
        }
        ReplyKind::FieldList => {
            let mut cols = Vec::new();
            loop {
                let p = next!();
                if p.first() == Some(&0xff) {
                    units.push(Unit::Err(parse_err(p).map_err(Need::Bad)?));
                    break;
                }
                if is_eof(p) {
                    parse_eof(p).map_err(Need::Bad)?;
                    units.push(Unit::FieldList { cols });
                    break;
                }
                cols.push(parse_coldef(p, true).map_err(|e| Need::Bad(format!("field list def: {}", e)))?);
            }
        }
        ReplyKind::Query | ReplyKind::Execute => loop {
            let p = next!();
            match p.first() {
                None => bad!("empty packet where a result was expected"),
                Some(0x00) => {
                    let ok = parse_ok(p).map_err(Need::Bad)?;
                    let more = ok.status & STATUS_MORE_RESULTS != 0;
                    units.push(Unit::Ok(ok));
                    if !more {
                        break;
                    }
                }
                Some(0xff) => {
                    units.push(Unit::Err(parse_err(p).map_err(Need::Bad)?));
                    break;
                }
                Some(0xfb) => bad!("LOCAL INFILE request"),
                Some(_) => {
                    if is_eof(p) {
                        bad!("EOF packet where a result header was expected");
                    }
                    let mut c = Cur::new(p);
                    let n = c.lenenc_int().map_err(Need::Bad)?;
                    if !c.done() {
                        bad!("column-count packet has {} trailing bytes", c.left());
                    }
                    if n == 0 {
                        bad!("column count 0");
                    }
                    let mut cols = Vec::with_capacity(n as usize);
                    for k in 0..n {
                        let p = next!();
                        cols.push(parse_coldef(p, false).map_err(|e| Need::Bad(format!("column def {}: {}", k, e)))?);
                    }
                    let p = next!();
                    parse_eof(p).map_err(|e| Need::Bad(format!("after column defs: {}", e)))?;
                    let bin = kind == ReplyKind::Execute;
                    let mut trows = Vec::new();
                    let mut brows = Vec::new();
                    let more;
                    loop {
                        let p = next!();
                        if is_eof(p) {
                            let e = parse_eof(p).map_err(Need::Bad)?;
                            more = e.status & STATUS_MORE_RESULTS != 0;
                            units.push(Unit::Set {
                                cols,
                                rows: if bin { Rows::Bin(brows) } else { Rows::Text(trows) },
                                end_status: Some(e.status),
                                end_err: None,
                            });
                            break;
                        }
                        if p.first() == Some(&0xff) {
                            let e = parse_err(p).map_err(Need::Bad)?;
                            more = false;
                            units.push(Unit::Set {
                                cols,
                                rows: if bin { Rows::Bin(brows) } else { Rows::Text(trows) },
                                end_status: None,
                                end_err: Some(e),
                            });
                            break;
                        }
                        if bin {
                            brows.push(parse_bin_row(p, &cols).map_err(|e| Need::Bad(format!("row {}: {}", brows.len(), e)))?);
                        } else {
                            trows.push(parse_text_row(p, cols.len()).map_err(|e| Need::Bad(format!("row {}: {}", trows.len(), e)))?);
                        }
                    }
                    if !more {
                        break;
                    }
                }
            }
        },
    }
    Ok(Response { units, first_msg: at, n_msgs: i - at })
}

// ------------------------------------------------------------------------------------------
// client -> server encoders

pub fn handshake41(caps: u32, max_packet: u32, charset: u8, user: &[u8], tail: &[u8]) -> Vec<u8> {
    let mut p = Vec::new();
    p.extend_from_slice(&(caps | CAP_PROTOCOL_41).to_le_bytes());
    p.extend_from_slice(&max_packet.to_le_bytes());
    p.push(charset);
    p.extend_from_slice(&[0u8; 23]);
    p.extend_from_slice(user);
    p.push(0);
    p.extend_from_slice(tail);
    p
}

pub fn ssl_request(caps: u32, max_packet: u32, charset: u8) -> Vec<u8> {
    let mut p = Vec::new();
    p.extend_from_slice(&(caps | CAP_PROTOCOL_41 | CAP_SSL).to_le_bytes());
    p.extend_from_slice(&max_packet.to_le_bytes());
    p.push(charset);
    p.extend_from_slice(&[0u8; 23]);
    p
}

pub fn handshake320(caps: u16, max_packet: u32, user: &[u8], tail: &[u8]) -> Vec<u8> {
    let mut p = Vec::new();
    p.extend_from_slice(&(caps & !(CAP_PROTOCOL_41 as u16)).to_le_bytes());
    p.extend_from_slice(&max_packet.to_le_bytes()[..3]);
    p.extend_from_slice(user);
    p.push(0);
    p.extend_from_slice(tail);
    p
}

pub fn com_simple(cmd: u8, arg: &[u8]) -> Vec<u8> {
    let mut p = Vec::with_capacity(arg.len() + 1);
    p.push(cmd);
    p.extend_from_slice(arg);
    p
}

pub fn com_close(id: u32) -> Vec<u8> {
    let mut p = vec![COM_STMT_CLOSE];
    p.extend_from_slice(&id.to_le_bytes());
    p
}

pub fn com_long_data(id: u32, param: u16, data: &[u8]) -> Vec<u8> {
    let mut p = vec![COM_STMT_SEND_LONG_DATA];
    p.extend_from_slice(&id.to_le_bytes());
    p.extend_from_slice(&param.to_le_bytes());
    p.extend_from_slice(data);
    p
}

/// A parameter as a client binds it.
#[derive(Clone, Debug, PartialEq, Serialize, Deserialize)]
pub struct Param {
    pub coltype: u8,
    pub unsigned: bool,
    pub value: PVal,
}

#[derive(Clone, Debug, PartialEq, Serialize, Deserialize)]
pub enum PVal {
    /// NULL via the bitmap
    Null,
    /// not sent inline because long data was sent for it
    LongData,
    /// integer given as the bit pattern to put on the wire (width from the type)
    Int(u64),
    F32(u32),
    F64(u64),
    Bytes(Vec<u8>),
    /// a byte string whose length prefix is not the shortest one: the given first byte (0xfc: two
    /// length bytes, 0xfd: three, 0xfe: eight) whatever the length - legal, the first byte decides
    BytesWide(Vec<u8>, u8),
    /// y, m, d, h, mi, s, us, length form (0, 4, 7, 11)
    Date(u16, u8, u8, u8, u8, u8, u32, u8),
    /// neg, days, h, m, s, us, length form (0, 8, 12)
    Time(bool, u32, u8, u8, u8, u32, u8),
    /// MYSQL_TYPE_NULL bound as a type: no bytes
    TypeNull,
}

pub fn int_width(coltype: u8) -> Option<usize> {
    match coltype {
        T_TINY => Some(1),
        T_SHORT | T_YEAR => Some(2),
        T_LONG | T_INT24 => Some(4),
        T_LONGLONG => Some(8),
        _ => None,
    }
}

pub fn put_param_value(out: &mut Vec<u8>, p: &Param) {
    match &p.value {
        PVal::Null | PVal::LongData | PVal::TypeNull => {}
        PVal::Int(bits) => {
            let w = int_width(p.coltype).expect("Int value for integer type");
            out.extend_from_slice(&bits.to_le_bytes()[..w]);
        }
        PVal::F32(b) => out.extend_from_slice(&b.to_le_bytes()),
        PVal::F64(b) => out.extend_from_slice(&b.to_le_bytes()),
        PVal::Bytes(b) => put_lenenc_bytes(out, b),
        PVal::BytesWide(b, first) => {
            out.push(*first);
            let n = match *first {
                0xfc => 2,
                0xfd => 3,
                _ => 8,
            };
            out.extend_from_slice(&(b.len() as u64).to_le_bytes()[..n]);
            out.extend_from_slice(b);
        }
        PVal::Date(y, m, d, h, mi, s, us, form) => {
            out.push(*form);
            if *form >= 4 {
                out.extend_from_slice(&y.to_le_bytes());
                out.push(*m);
                out.push(*d);
            }
            if *form >= 7 {
                out.push(*h);
                out.push(*mi);
                out.push(*s);
            }
            if *form >= 11 {
                out.extend_from_slice(&us.to_le_bytes());
            }
        }
        PVal::Time(neg, days, h, m, s, us, form) => {
            out.push(*form);
            if *form >= 8 {
                out.push(*neg as u8);
                out.extend_from_slice(&days.to_le_bytes());
                out.push(*h);
                out.push(*m);
                out.push(*s);
            }
            if *form >= 12 {
                out.extend_from_slice(&us.to_le_bytes());
            }
        }
    }
}

/// COM_STMT_EXECUTE.  `send_types`: the new-params-bound flag (types follow when set).
pub fn com_execute(id: u32, flags: u8, iterations: u32, params: &[Param], send_types: bool) -> Vec<u8> {
    let mut p = vec![COM_STMT_EXECUTE];
    p.extend_from_slice(&id.to_le_bytes());
    p.push(flags);
    p.extend_from_slice(&iterations.to_le_bytes());
    if !params.is_empty() {
        let mut bitmap = vec![0u8; (params.len() + 7) / 8];
        for (i, q) in params.iter().enumerate() {
            if matches!(q.value, PVal::Null) {
                bitmap[i / 8] |= 1 << (i % 8);
            }
        }
        p.extend_from_slice(&bitmap);
        p.push(send_types as u8);
        if send_types {
            for q in params {
                p.push(q.coltype);
                p.push(if q.unsigned { 0x80 } else { 0 });
            }
        }
        for q in params {
            put_param_value(&mut p, q);
        }
    }
    p
}

pub fn hex(b: &[u8]) -> String {
    let mut s = String::with_capacity(b.len() * 2);
    for x in b.iter().take(64) {
        s.push_str(&format!("{:02x}", x));
    }
    if b.len() > 64 {
        s.push_str(&format!("…({} bytes)", b.len()));
    }
    s
}
