//! Shared generators: schedules, columns, values, writer programs, commands.

use crate::conv::*;
use crate::gen::G;
use crate::shim::*;
use crate::transport::Schedule;
use crate::vals::*;
use crate::wire::*;

pub const ERROR_KINDS: &[(&str, u16)] = include!(concat!(env!("OUT_DIR"), "/error_kinds.rs"));

pub fn gen_error_kind(g: &mut G<'_>) -> u16 {
    // a few well-known ones first, then any
    if g.chance(1, 2) {
        *g.pick(&[1064u16, 1045, 1046, 1049, 1054, 1062, 1146, 1213, 1105])
    } else {
        g.pick(ERROR_KINDS).1
    }
}

pub fn gen_error_msg(g: &mut G<'_>) -> Vec<u8> {
    match g.weighted(&[8, 8, 4, 2, 2, 1]) {
        5 => {
            // messages that echo a long statement: around the buffer sizes implementations like
            // (4, 8, 16, 64 KiB), so that the ERR packet is the largest packet of its reply
            let n = match g.below(5) {
                0 => g.usize_in(1000, 5000),
                1 => g.usize_in(8150, 8220),
                2 => g.usize_in(16_360, 16_400),
                3 => g.usize_in(4070, 4110),
                _ => g.usize_in(65_500, 70_000),
            };
            crate::gen::pattern(g.raw(), n)
        }
        0 => b"boom".to_vec(),
        1 => {
            let n = g.usize_in(0, 40);
            (0..n).map(|_| b' ' + g.below(95) as u8).collect()
        }
        2 => {
            let n = g.usize_in(0, 30);
            g.bytes(n)
        }
        3 => {
            let n = g.usize_in(250, 400);
            g.bytes(n)
        }
        _ => b"#HY000 \x00\xff#".to_vec(),
    }
}

// ------------------------------------------------------------------------------------------
// strings and bytes

pub fn gen_len_class(g: &mut G<'_>, allow_huge: bool) -> usize {
    match g.weighted(&[10, 6, 3, 2, if allow_huge { 1 } else { 0 }]) {
        0 => g.usize_in(0, 12),
        1 => g.usize_in(0, 250),
        2 => *g.pick(&[250usize, 251, 252, 253, 254, 255, 256, 300]),
        3 => g.usize_in(251, 2000),
        _ => *g.pick(&[65_535usize, 65_536, 65_537, 70_000]),
    }
}

pub fn gen_bytes(g: &mut G<'_>, allow_huge: bool) -> Vec<u8> {
    match g.weighted(&[3, 1, 8]) {
        0 => g.pick(&[&b""[..], b"NULL", b"\xfb", b"\xff", b"\x00", b"null", b"\xfe\xfe", b"0"]).to_vec(),
        1 => {
            // long run with a position-dependent pattern (cheap to generate)
            let n = gen_len_class(g, allow_huge);
            crate::gen::pattern(g.raw(), n)
        }
        _ => {
            let n = gen_len_class(g, false).min(600);
            g.bytes(n)
        }
    }
}

pub fn gen_string(g: &mut G<'_>, allow_huge: bool) -> String {
    match g.weighted(&[3, 6, 2, 1]) {
        0 => g.pick(&["", "NULL", "null", "0", " ", "a'b\"c", "ü€😀", "\u{0}"]).to_string(),
        1 => {
            let n = gen_len_class(g, false).min(300);
            (0..n).map(|_| (b' ' + g.below(95) as u8) as char).collect()
        }
        2 => {
            let n = g.usize_in(0, 40);
            (0..n)
                .map(|_| *g.pick(&['a', 'é', 'ß', '漢', '😀', '\u{7f}', '\u{0}', 'Z', '\u{fffd}', '\n']))
                .collect()
        }
        _ => {
            let n = gen_len_class(g, allow_huge);
            let seed = g.raw();
            (0..n as u64).map(|i| (b' ' + 1 + crate::gen::pattern_byte(seed, i) % 90) as char).collect()
        }
    }
}

pub fn gen_name(g: &mut G<'_>) -> String {
    match g.weighted(&[6, 2, 1]) {
        0 => {
            let n = g.usize_in(1, 8);
            (0..n).map(|_| (b'a' + g.below(26) as u8) as char).collect()
        }
        1 => gen_string(g, false),
        _ => String::new(),
    }
}

// ------------------------------------------------------------------------------------------
// temporal values

pub fn days_in_month(y: i32, m: u32) -> u32 {
    match m {
        1 | 3 | 5 | 7 | 8 | 10 | 12 => 31,
        4 | 6 | 9 | 11 => 30,
        _ => {
            if (y % 4 == 0 && y % 100 != 0) || y % 400 == 0 {
                29
            } else {
                28
            }
        }
    }
}

pub fn gen_date(g: &mut G<'_>) -> (i32, u32, u32) {
    let y = match g.weighted(&[4, 2, 2]) {
        0 => g.range(1970, 2040) as i32,
        1 => *g.pick(&[0i32, 1, 99, 100, 999, 1000, 1900, 2000, 2024, 9999]),
        _ => g.range(0, 9999) as i32,
    };
    let m = g.range(1, 12) as u32;
    let dim = days_in_month(y, m);
    let d = if g.chance(1, 4) { dim } else { g.range(1, dim as u64) as u32 };
    (y, m, d)
}

/// a chrono date whose year lies outside 0..=9999 (chrono's own range is about +-262000)
pub fn gen_date_far(g: &mut G<'_>) -> (i32, u32, u32) {
    let y = *g.pick(&[10_000i32, 12_345, 65_535, 65_536, 65_537, 70_000, 131_072, 262_142, -1, -44, -4713, -65_536, -262_143]);
    let m = g.range(1, 12) as u32;
    let d = g.range(1, 28) as u32;
    (y, m, d)
}

pub fn gen_micros(g: &mut G<'_>) -> u32 {
    match g.weighted(&[3, 2, 3]) {
        0 => 0,
        1 => *g.pick(&[1u32, 10, 100, 1000, 100_000, 999_999, 500_000, 42]),
        _ => g.below(1_000_000) as u32,
    }
}

pub fn gen_hms(g: &mut G<'_>) -> (u32, u32, u32) {
    if g.chance(1, 5) {
        *g.pick(&[(0, 0, 0), (23, 59, 59), (0, 0, 1), (12, 0, 0), (9, 5, 7)])
    } else {
        (g.below(24) as u32, g.below(60) as u32, g.below(60) as u32)
    }
}

/// (secs, micros) of a non-negative duration; `max_days` bounds it
pub fn gen_dur(g: &mut G<'_>, max_secs: u64) -> (u64, u32) {
    let secs = match g.weighted(&[2, 3, 3, 2]) {
        0 => 0,
        1 => g.below(86_400.min(max_secs + 1)),
        2 => g.below(max_secs + 1),
        _ => *g.pick(&[1u64, 59, 60, 3599, 3600, 86_399, 86_400, 359_999, 360_000, 838 * 3600 + 59 * 60 + 59, 34 * 86_400, 35 * 86_400 - 1]),
    }
    .min(max_secs);
    (secs, gen_micros(g))
}

// ------------------------------------------------------------------------------------------
// floats

pub fn gen_f32_bits(g: &mut G<'_>) -> u32 {
    loop {
        let b = match g.weighted(&[3, 3, 3, 3]) {
            0 => *g.pick(&[0u32, 0x8000_0000, 0x3f80_0000, 0xbf80_0000, 1, 0x007f_ffff, 0x0080_0000, 0x7f7f_ffff, 0xff7f_ffff, 0x3dcc_cccd, 0x4b80_0000, 0x5f00_0000]),
            1 => (g.irange(-1000, 1000) as f32 / *g.pick(&[1.0f32, 2.0, 10.0, 3.0, 1000.0])).to_bits(),
            2 => g.raw(),
            _ => {
                let j = g.irange(-3, 16) as f32 / 16.0;
                let base = if g.coin() { 2f32.powi(g.irange(-40, 40) as i32) } else { 10f32.powi(g.irange(-12, 12) as i32) };
                let v = base * (1.0 + j);
                (if g.chance(1, 3) { -v } else { v }).to_bits()
            }
        };
        if f32::from_bits(b).is_finite() {
            return b;
        }
    }
}

pub fn gen_f64_bits(g: &mut G<'_>) -> u64 {
    loop {
        let b = match g.weighted(&[3, 3, 3, 3]) {
            0 => *g.pick(&[
                0u64,
                1 << 63,
                1,
                0x000f_ffff_ffff_ffff,
                0x0010_0000_0000_0000,
                0x7fef_ffff_ffff_ffff,
                0xffef_ffff_ffff_ffff,
                0x3ff0_0000_0000_0000,
                0x3fb9_9999_9999_999a,
                0x4340_0000_0000_0000,
                0x43e0_0000_0000_0000,
                0x444b_1ae4_d6e2_ef50,
            ]),
            1 => (g.irange(-100_000, 100_000) as f64 / *g.pick(&[1.0f64, 2.0, 10.0, 3.0, 1000.0, 1e9])).to_bits(),
            2 => g.u64_any(),
            _ => {
                // just above / below powers of two and ten: where integer conversions, digit counts and
                // formatting modes change (2^53, 2^63, 2^64, 1e15, 1e16, 1e19, 1e21 ...)
                let j = g.irange(-3, 16) as f64 / 16.0;
                let base = if g.coin() { 2f64.powi(g.irange(-70, 70) as i32) } else { 10f64.powi(g.irange(-25, 25) as i32) };
                let v = base * (1.0 + j);
                (if g.chance(1, 3) { -v } else { v }).to_bits()
            }
        };
        if f64::from_bits(b).is_finite() {
            return b;
        }
    }
}

// ------------------------------------------------------------------------------------------
// values

pub fn gen_wrap(g: &mut G<'_>, allow_null: bool) -> Wrap {
    if allow_null {
        *g.pick(&[Wrap::Plain, Wrap::Plain, Wrap::Ref, Wrap::Some, Wrap::SomeRef, Wrap::RefSome, Wrap::None, Wrap::RefNone])
    } else {
        *g.pick(&[Wrap::Plain, Wrap::Plain, Wrap::Ref, Wrap::Some, Wrap::SomeRef, Wrap::RefSome])
    }
}

fn clamp_i(v: i64, lo: i64, hi: i64) -> i64 {
    v.max(lo).min(hi)
}

pub fn gen_int_base(g: &mut G<'_>, which: usize) -> Base {
    // which: 0..10 = u8,i8,u16,i16,u32,i32,u64,i64,usize,isize
    let u = g.u64_biased();
    let i = g.i64_biased();
    match which {
        0 => Base::U8(if g.coin() { u as u8 } else { u.min(255) as u8 }),
        1 => Base::I8(if g.coin() { i as i8 } else { clamp_i(i, -128, 127) as i8 }),
        2 => Base::U16(if g.coin() { u as u16 } else { u.min(65535) as u16 }),
        3 => Base::I16(if g.coin() { i as i16 } else { clamp_i(i, i16::MIN as i64, i16::MAX as i64) as i16 }),
        4 => Base::U32(if g.coin() { u as u32 } else { u.min(u32::MAX as u64) as u32 }),
        5 => Base::I32(if g.coin() { i as i32 } else { clamp_i(i, i32::MIN as i64, i32::MAX as i64) as i32 }),
        6 => Base::U64(u),
        7 => Base::I64(i),
        8 => Base::Usize(u),
        _ => Base::Isize(i),
    }
}

pub fn gen_my_date(g: &mut G<'_>) -> MyVal {
    let (y, m, d) = gen_date(g);
    let (h, mi, s) = if g.chance(1, 3) { (0, 0, 0) } else { gen_hms(g) };
    MyVal::Date(y as u16, m as u8, d as u8, h as u8, mi as u8, s as u8, gen_micros(g))
}

pub fn gen_my_time(g: &mut G<'_>, max_days: u32) -> MyVal {
    let (h, m, s) = gen_hms(g);
    let days = if g.coin() { 0 } else { g.below(max_days as u64 + 1) as u32 };
    MyVal::Time(false, days, h as u8, m as u8, s as u8, gen_micros(g))
}

/// any value of any supported Rust type (text protocol: the column type is irrelevant)
pub fn gen_any_base(g: &mut G<'_>, allow_huge: bool) -> Base {
    match g.weighted(&[10, 2, 2, 3, 3, 2, 2, 2, 4]) {
        0 => {
            let w = g.below(10) as usize;
            gen_int_base(g, w)
        }
        1 => Base::F32(gen_f32_bits(g)),
        2 => Base::F64(gen_f64_bits(g)),
        3 => {
            if g.coin() {
                Base::Str(gen_string(g, allow_huge))
            } else {
                Base::StrRef(gen_string(g, allow_huge))
            }
        }
        4 => {
            if g.coin() {
                Base::Vec(gen_bytes(g, allow_huge))
            } else {
                Base::Slice(gen_bytes(g, allow_huge))
            }
        }
        5 => {
            let (y, m, d) = gen_date(g);
            Base::Date(y, m, d)
        }
        6 => {
            let (y, m, d) = gen_date(g);
            let (h, mi, s) = gen_hms(g);
            Base::DateTime(y, m, d, h, mi, s, gen_micros(g))
        }
        7 => {
            let (s, us) = gen_dur(g, 1000 * 3600);
            Base::Dur(s, us)
        }
        _ => Base::My(match g.below(8) {
            0 => MyVal::Null,
            1 => MyVal::Bytes(gen_bytes(g, allow_huge)),
            2 => MyVal::Int(g.i64_biased()),
            3 => MyVal::UInt(g.u64_biased()),
            4 => MyVal::Float(gen_f32_bits(g)),
            5 => MyVal::Double(gen_f64_bits(g)),
            6 => gen_my_date(g),
            _ => gen_my_time(g, 40),
        }),
    }
}

pub fn gen_text_val(g: &mut G<'_>, allow_huge: bool) -> Val {
    let base = gen_any_base(g, allow_huge);
    Val { base, wrap: gen_wrap(g, true) }
}

fn gen_int_in(g: &mut G<'_>, lo: i128, hi: i128) -> i128 {
    // boundary biased within [lo, hi]
    match g.weighted(&[3, 2, 3]) {
        0 => *g.pick(&[lo, hi, 0i128.max(lo).min(hi), 1i128.max(lo).min(hi), (-1i128).max(lo).min(hi), lo + 1, hi - 1]),
        1 => {
            let v = g.irange(-130, 130) as i128;
            v.max(lo).min(hi)
        }
        _ => {
            let span = (hi - lo) as u128;
            if span >= u64::MAX as u128 {
                lo + g.u64_any() as i128
            } else {
                lo + g.below(span as u64 + 1) as i128
            }
        }
    }
}

/// A non-NULL value whose Rust type the binary column must accept (natural pair or documented
/// widening), i.e. `bin_expect` is `Accept`.
pub fn gen_bin_base(g: &mut G<'_>, coltype: u8, unsigned: bool) -> Option<Base> {
    Some(match coltype {
        T_TINY => {
            if unsigned {
                match g.below(3) {
                    0 => Base::U8(gen_int_in(g, 0, 255) as u8),
                    1 => Base::Usize(gen_int_in(g, 0, 255) as u64),
                    _ => Base::My(MyVal::Int(gen_int_in(g, 0, 255) as i64)),
                }
            } else {
                match g.below(3) {
                    0 => Base::I8(gen_int_in(g, -128, 127) as i8),
                    1 => Base::Isize(gen_int_in(g, -128, 127) as i64),
                    _ => Base::My(MyVal::Int(gen_int_in(g, -128, 127) as i64)),
                }
            }
        }
        T_SHORT | T_YEAR => {
            if unsigned {
                match g.below(3) {
                    0 => Base::U8(g.byte()),
                    1 => Base::U16(gen_int_in(g, 0, 65535) as u16),
                    _ => Base::My(MyVal::Int(gen_int_in(g, 0, 65535) as i64)),
                }
            } else {
                match g.below(4) {
                    0 => Base::I8(g.byte() as i8),
                    1 => Base::U8(g.byte()),
                    2 => Base::I16(gen_int_in(g, -32768, 32767) as i16),
                    _ => Base::My(MyVal::Int(gen_int_in(g, -32768, 32767) as i64)),
                }
            }
        }
        T_LONG | T_INT24 => {
            if unsigned {
                match g.below(4) {
                    0 => Base::U8(g.byte()),
                    1 => Base::U16(g.below(65536) as u16),
                    2 => Base::U32(gen_int_in(g, 0, u32::MAX as i128) as u32),
                    _ => Base::My(MyVal::Int(gen_int_in(g, 0, u32::MAX as i128) as i64)),
                }
            } else {
                match g.below(6) {
                    0 => Base::I8(g.byte() as i8),
                    1 => Base::U8(g.byte()),
                    2 => Base::I16(g.below(65536) as u16 as i16),
                    3 => Base::U16(g.below(65536) as u16),
                    4 => Base::I32(gen_int_in(g, i32::MIN as i128, i32::MAX as i128) as i32),
                    _ => Base::My(MyVal::Int(gen_int_in(g, i32::MIN as i128, i32::MAX as i128) as i64)),
                }
            }
        }
        T_LONGLONG => {
            if unsigned {
                match g.below(6) {
                    0 => Base::U8(g.byte()),
                    1 => Base::U16(g.below(65536) as u16),
                    2 => Base::U32(g.raw()),
                    3 => Base::U64(g.u64_biased()),
                    4 => Base::Usize(g.u64_biased()),
                    _ => Base::My(MyVal::UInt(g.u64_biased())),
                }
            } else {
                match g.below(9) {
                    0 => Base::I8(g.byte() as i8),
                    1 => Base::U8(g.byte()),
                    2 => Base::I16(g.below(65536) as u16 as i16),
                    3 => Base::U16(g.below(65536) as u16),
                    4 => Base::I32(g.raw() as i32),
                    5 => Base::U32(g.raw()),
                    6 => Base::I64(g.i64_biased()),
                    7 => Base::Isize(g.i64_biased()),
                    _ => Base::My(MyVal::Int(g.i64_biased())),
                }
            }
        }
        T_FLOAT => {
            if g.chance(1, 4) {
                Base::My(MyVal::Float(gen_f32_bits(g)))
            } else {
                Base::F32(gen_f32_bits(g))
            }
        }
        T_DOUBLE => match g.below(4) {
            0 => Base::F32(gen_f32_bits(g)),
            1 => Base::My(MyVal::Double(gen_f64_bits(g))),
            _ => Base::F64(gen_f64_bits(g)),
        },
        T_DATE => {
            let (y, m, d) = gen_date(g);
            Base::Date(y, m, d)
        }
        T_DATETIME | T_TIMESTAMP => {
            if g.chance(1, 4) {
                Base::My(gen_my_date(g))
            } else {
                let (y, m, d) = gen_date(g);
                let (h, mi, s) = if g.chance(1, 4) { (0, 0, 0) } else { gen_hms(g) };
                Base::DateTime(y, m, d, h, mi, s, gen_micros(g))
            }
        }
        T_TIME => {
            if g.chance(1, 4) {
                Base::My(gen_my_time(g, 33))
            } else {
                let (s, us) = gen_dur(g, 35 * 86_400 - 1);
                Base::Dur(s, us)
            }
        }
        t if is_bytes_type(t) => match g.below(5) {
            0 => Base::Str(gen_string(g, false)),
            1 => Base::StrRef(gen_string(g, false)),
            2 => Base::Vec(gen_bytes(g, false)),
            3 => Base::Slice(gen_bytes(g, false)),
            _ => Base::My(MyVal::Bytes(gen_bytes(g, false))),
        },
        _ => return None,
    })
}

/// column types for which `gen_bin_base` can produce values
pub const VALUE_COLTYPES: [u8; 26] = [
    T_TINY, T_SHORT, T_YEAR, T_LONG, T_INT24, T_LONGLONG, T_FLOAT, T_DOUBLE, T_DATE, T_DATETIME, T_TIMESTAMP, T_TIME, T_STRING,
    T_VAR_STRING, T_BLOB, T_TINY_BLOB, T_MEDIUM_BLOB, T_LONG_BLOB, T_SET, T_ENUM, T_DECIMAL, T_VARCHAR, T_BIT, T_NEWDECIMAL,
    T_GEOMETRY, T_JSON,
];

pub fn gen_col(g: &mut G<'_>, for_values: bool) -> ColSpec {
    let coltype = if for_values {
        // integer and string types more often
        match g.weighted(&[4, 2, 6]) {
            0 => *g.pick(&[T_TINY, T_SHORT, T_LONG, T_LONGLONG, T_INT24, T_YEAR]),
            1 => *g.pick(&[T_VAR_STRING, T_STRING, T_BLOB, T_VARCHAR]),
            _ => *g.pick(&VALUE_COLTYPES),
        }
    } else {
        *g.pick(&ALL_COLTYPES)
    };
    let mut flags = 0u16;
    if g.coin() {
        flags |= FLAG_UNSIGNED;
    }
    if g.chance(1, 4) {
        flags |= FLAG_NOT_NULL;
    }
    if g.chance(1, 6) {
        flags |= (g.raw() as u16) & !(FLAG_UNSIGNED | FLAG_NOT_NULL);
    }
    ColSpec { table: gen_name(g), name: gen_name(g), coltype, flags }
}

pub fn gen_ncols(g: &mut G<'_>) -> usize {
    match g.weighted(&[1, 6, 4, 2, 1]) {
        0 => 0,
        1 => g.usize_in(1, 4),
        2 => *g.pick(&[5usize, 6, 7, 8, 9, 14, 15, 16]),
        3 => g.usize_in(1, 40),
        _ => *g.pick(&[62usize, 63, 64, 65, 66, 250, 251, 252, 300]),
    }
}

/// a cell for column `c`: text mode takes anything, binary mode a type-matching value or NULL
pub fn gen_cell(g: &mut G<'_>, c: &ColSpec, bin: bool) -> Val {
    if !bin {
        // keep text cells small so that conversations stay cheap
        return gen_text_val(g, false);
    }
    let nullable = !c.not_null();
    if nullable && g.chance(1, 4) {
        // NULL in one of its spellings
        let base = gen_bin_base(g, c.coltype, c.unsigned()).unwrap_or(Base::U8(0));
        return match g.below(3) {
            0 => Val { base, wrap: Wrap::None },
            1 => Val { base, wrap: Wrap::RefNone },
            _ => Val { base: Base::My(MyVal::Null), wrap: *g.pick(&[Wrap::Plain, Wrap::Ref]) },
        };
    }
    match gen_bin_base(g, c.coltype, c.unsigned()) {
        Some(base) => Val { base, wrap: gen_wrap(g, false) },
        None => {
            // no Rust type can be written to this column type: only NULL is possible
            if nullable {
                Val { base: Base::U8(0), wrap: Wrap::None }
            } else {
                // caller avoids NOT NULL columns of value-less types
                Val { base: Base::U8(0), wrap: Wrap::None }
            }
        }
    }
}

/// columns for a resultset that will carry rows in binary mode: every column has a value type,
/// or is nullable
/// All columns of one type and the same flags: a cell generated for one of them suits every other.
pub fn uniform_cols(cols: &[ColSpec]) -> bool {
    cols.windows(2).all(|w| w[0].coltype == w[1].coltype && w[0].flags == w[1].flags)
}

pub fn gen_cols(g: &mut G<'_>, n: usize, bin: bool) -> Vec<ColSpec> {
    let mut cols = gen_cols_distinct(g, n, bin);
    // data that repeats itself (what a cache, a dedup or a lookup by name would trip over): a
    // column that is the copy of an earlier one, or only shares its name, or is named like its table
    if n >= 2 && g.chance(1, 10) {
        let j = g.usize_in(1, n - 1);
        let i = g.usize_in(0, j - 1);
        match g.below(4) {
            0 => cols[j] = cols[i].clone(),
            1 => cols[j].name = cols[i].name.clone(),
            2 => cols[j].table = cols[j].name.clone(),
            _ => {
                // ("a.b", "c") next to ("a", "b.c"): the same once joined, same type and flags
                let sep = *g.pick(&[".", ".", "", "\u{0}", "`"]);
                let (p, q, r) = (cols[i].table.clone(), cols[i].name.clone(), cols[j].name.clone());
                cols[j] = cols[i].clone();
                cols[i].table = format!("{}{}{}", p, sep, q);
                cols[i].name = r.clone();
                cols[j].table = p;
                cols[j].name = format!("{}{}{}", q, sep, r);
            }
        }
    }
    cols
}

fn gen_cols_distinct(g: &mut G<'_>, n: usize, bin: bool) -> Vec<ColSpec> {
    if g.allow_offers && (2..=12).contains(&n) && g.chance(1, 25) {
        // columns of one kind (the sets in which short rows are tried: see gen_row)
        let fv = bin || g.chance(3, 4);
        let mut c = gen_col(g, fv);
        if bin && !VALUE_COLTYPES.contains(&c.coltype) {
            c.flags &= !FLAG_NOT_NULL;
        }
        return (0..n)
            .map(|i| {
                let mut ci = c.clone();
                ci.name = format!("{}{}", c.name.chars().take(8).collect::<String>(), i);
                ci
            })
            .collect();
    }
    (0..n)
        .map(|_| {
            let fv = bin || g.chance(3, 4);
            let mut c = gen_col(g, fv);
            if n > 20 {
                // keep wide headers cheap
                c.table = c.table.chars().take(8).collect();
                c.name = c.name.chars().take(8).collect();
            }
            if bin && !VALUE_COLTYPES.contains(&c.coltype) {
                c.flags &= !FLAG_NOT_NULL;
            }
            c
        })
        .collect()
}

pub fn gen_row(g: &mut G<'_>, cols: &[ColSpec], bin: bool, last: bool) -> RowProg {
    if cols.is_empty() {
        // "if no columns are emitted, any written rows are ignored": cells offered to a zero-column
        // resultset are accepted and dropped; only ended rows count
        let n = g.usize_in(0, 2);
        let cells: Vec<Val> = (0..n).map(|_| Val::plain(Base::I32(g.below(100) as i32))).collect();
        let form = *g.pick(&[RowForm::WriteRow, RowForm::WriteRowRef, RowForm::Cols, RowForm::Cols]);
        return RowProg { cells, form, offers: vec![] };
    }
    if !last && cols.len() >= 2 && g.allow_offers && uniform_cols(cols) && g.chance(1, 3) {
        // a short row that the shim tries to end: end_row() has to refuse it; the shim then gives
        // the row up and goes on with the next one.  (Only with columns of one kind: if the library
        // does not reset the row, the next row's cells land in shifted columns, and that has to be
        // no type question - a value of the wrong signedness is a documented panic.)
        let k = g.usize_in(1, cols.len() - 1);
        let cells: Vec<Val> = cols[..k].iter().map(|c| gen_cell(g, c, bin)).collect();
        return RowProg { cells, form: RowForm::ShortEndRow, offers: vec![] };
    }
    if bin && last && g.allow_offers && g.chance(1, 25) {
        // a row the shim gives up before it has written anything: its first value is refused and
        // there is no fallback; the resultset is finished without it
        if let Some(v) = gen_refusable(g, cols.first()) {
            return RowProg { cells: vec![], form: RowForm::ColsOpen, offers: vec![(0, v)] };
        }
    }
    let cells: Vec<Val> = cols.iter().map(|c| gen_cell(g, c, bin)).collect();
    let form = match g.weighted(&[3, 2, 3, if last && !cols.is_empty() { 2 } else { 0 }, if cols.len() >= 2 { 1 } else { 0 }]) {
        0 => RowForm::WriteRow,
        1 => RowForm::WriteRowRef,
        2 => RowForm::Cols,
        3 => RowForm::ColsOpen,
        _ => RowForm::Mixed(g.usize_in(1, cols.len() - 1)),
    };
    let mut offers = Vec::new();
    if bin && g.allow_offers && g.chance(1, 6) {
        // a shim with fallback values: some cells are first offered something the column cannot
        // carry, which has to be refused without a trace in the row
        let upto = match form {
            RowForm::Cols | RowForm::ColsOpen => cols.len() + 1,
            RowForm::Mixed(k) => k.min(cols.len()),
            _ => 0,
        };
        if upto > 0 {
            let n = if g.chance(2, 3) { 1 } else { g.usize_in(2, 4) };
            for _ in 0..n {
                // the first column, the byte boundaries of the bitmap and the surplus column matter most
                let i = match g.weighted(&[3, 3, 2]) {
                    0 => 0,
                    1 => g.usize_in(0, upto - 1),
                    _ => upto - 1,
                };
                if let Some(v) = gen_refusable(g, cols.get(i)) {
                    offers.push((i, v));
                }
            }
            offers.sort_by_key(|(i, _)| *i);
        }
    }
    RowProg { cells, form, offers }
}

/// a value the binary column `c` cannot carry and that the encoders refuse with an error (never by
/// assert!: integer-to-integer mismatches are left out); `None` column = the surplus column after
/// the last one, for which everything is refused
pub fn gen_refusable(g: &mut G<'_>, c: Option<&ColSpec>) -> Option<Val> {
    let c = match c {
        None => return Some(Val { base: gen_bin_base(g, T_LONG, false).unwrap_or(Base::I32(1)), wrap: gen_wrap(g, true) }),
        Some(c) => c,
    };
    if c.not_null() && g.coin() {
        let base = gen_bin_base(g, c.coltype, c.unsigned()).unwrap_or(Base::U8(0));
        return Some(match g.below(3) {
            0 => Val { base, wrap: Wrap::None },
            1 => Val { base, wrap: Wrap::RefNone },
            _ => Val { base: Base::My(MyVal::Null), wrap: *g.pick(&[Wrap::Plain, Wrap::Ref]) },
        });
    }
    if matches!(c.coltype, T_DATE | T_DATETIME | T_TIMESTAMP) && g.coin() {
        // the right type, but a year the two-byte wire field cannot carry
        let (y, m, d) = gen_date_far(g);
        if !(0..=65_535).contains(&y) {
            let base = if c.coltype == T_DATE { Base::Date(y, m, d) } else { Base::DateTime(y, m, d, 1, 2, 3, if g.coin() { 0 } else { 5 }) };
            return Some(Val { base, wrap: gen_wrap(g, false) });
        }
    }
    let int_col = crate::model::col_int_range(c.coltype, c.unsigned()).is_some();
    for _ in 0..4 {
        let base = match g.below(5) {
            0 => Base::Slice(gen_bytes(g, false)),
            1 => Base::F64(gen_f64_bits(g)),
            2 => {
                let (y, m, d) = gen_date(g);
                Base::Date(y, m, d)
            }
            3 => {
                let (s, us) = gen_dur(g, 3_000_000);
                Base::Dur(s, us)
            }
            _ => Base::I32(g.i64_biased() as i32),
        };
        let is_int = matches!(crate::model::sem_of_base(&base), crate::model::Sem::Int(_));
        if is_int && int_col {
            continue;
        }
        if matches!(crate::model::bin_expect(&base, c.coltype, c.unsigned()), crate::model::BinExpect::Refuse) {
            return Some(Val { base, wrap: gen_wrap(g, false) });
        }
    }
    None
}

pub fn gen_set(g: &mut G<'_>, bin: bool, end: SetEnd, max_rows: usize) -> Step {
    let n = gen_ncols(g);
    let cols = gen_cols(g, n, bin);
    let nrows = match g.weighted(&[2, 5, 2]) {
        0 => 0,
        1 => g.usize_in(1, 3.min(max_rows.max(1))),
        _ => g.usize_in(0, max_rows),
    };
    let nrows = if n > 100 { nrows.min(2) } else { nrows };
    let mut rows: Vec<RowProg> = (0..nrows).map(|i| gen_row(g, &cols, bin, i + 1 == nrows)).collect();
    settle_short_rows(&mut rows, cols.len());
    repeat_rows(g, &mut rows);
    Step::Set { cols, rows, end }
}

/// Sometimes a row is the exact copy of the row before it (identical consecutive rows).
pub fn repeat_rows(g: &mut G<'_>, rows: &mut Vec<RowProg>) {
    if rows.len() >= 2 && g.chance(1, 8) {
        let i = g.usize_in(1, rows.len() - 1);
        let ordinary = |r: &RowProg| matches!(r.form, RowForm::WriteRow | RowForm::WriteRowRef | RowForm::Cols) && r.offers.is_empty();
        if ordinary(&rows[i]) && ordinary(&rows[i - 1]) && rows[i].cells.len() == rows[i - 1].cells.len() && !rows[i - 1].cells.iter().any(|c| matches!(c.base, Base::BigBytes { .. } | Base::BigStr { .. })) {
            let form = rows[i].form;
            rows[i] = rows[i - 1].clone();
            rows[i].form = form;
        }
    }
}

/// A short row ended with end_row() (RowForm::ShortEndRow) leaves the writer in the middle of a row
/// unless the library resets it: the only thing a shim can sensibly do next is to write the next
/// row in full, which either works (the library reset the writer) or fails at once (then the shim
/// gives up).  Short rows that are not followed by such a row are taken out.
pub fn settle_short_rows(rows: &mut Vec<RowProg>, ncols: usize) {
    let mut i = 0;
    while i < rows.len() {
        if rows[i].form == RowForm::ShortEndRow {
            let ok_next = rows.get(i + 1).map(|n| matches!(n.form, RowForm::WriteRow | RowForm::WriteRowRef | RowForm::Cols) && n.offers.is_empty() && n.cells.len() == ncols).unwrap_or(false);
            if !ok_next {
                rows.remove(i);
                continue;
            }
        }
        i += 1;
    }
}

/// A shape-conforming writer program (every call reports success on a healthy transport).
pub fn gen_program(g: &mut G<'_>, bin: bool, max_rows: usize) -> Program {
    let mut steps: Vec<Step> = Vec::new();
    // chain of non-final units
    let chain = match g.weighted(&[6, 3, 2, 1]) {
        0 => 0,
        1 => 1,
        2 => 2,
        _ => g.usize_in(3, 4),
    };
    // sometimes all resultsets of the program show prefixes of one column list (a shim that
    // keeps `all: Vec<Column>` and answers with `&all[..k]`)
    let shared: Option<Vec<ColSpec>> = if chain > 0 && g.chance(1, 4) {
        let n = g.usize_in(2, 6);
        Some(gen_cols(g, n, bin))
    } else {
        None
    };
    let set_of = |g: &mut G<'_>, end: SetEnd| -> Step {
        match &shared {
            Some(all) => {
                let k = g.usize_in(1, all.len());
                let cols = all[..k].to_vec();
                let nrows = g.usize_in(0, 2.min(max_rows.max(1)));
                let mut rows: Vec<RowProg> = (0..nrows).map(|i| gen_row(g, &cols, bin, i + 1 == nrows)).collect();
                settle_short_rows(&mut rows, cols.len());
                Step::Set { cols, rows, end }
            }
            None => gen_set(g, bin, end, max_rows),
        }
    };
    for _ in 0..chain {
        if !steps.is_empty() && g.chance(1, 8) {
            // the same unit once more (same counts, or the same resultset with the same rows)
            let again = steps[steps.len() - 1].clone();
            steps.push(again);
        } else if g.coin() {
            steps.push(Step::CompleteOne { rows: g.u64_biased(), id: g.u64_biased() });
        } else {
            steps.push(set_of(g, SetEnd::FinishOne));
        }
    }
    // terminal
    let t = g.weighted(&[4, 5, 2, 2, 2, if chain > 0 { 2 } else { 0 }, if chain > 0 { 2 } else { 0 }]);
    match t {
        0 => steps.push(Step::Completed { rows: g.u64_biased(), id: g.u64_biased() }),
        1 => steps.push(set_of(g, SetEnd::Finish)),
        2 => steps.push(Step::Error { kind: gen_error_kind(g), msg: gen_error_msg(g) }),
        3 => {
            let end = SetEnd::FinishError { kind: gen_error_kind(g), msg: gen_error_msg(g) };
            steps.push(gen_set(g, bin, end, max_rows))
        }
        4 => steps.push(gen_set(g, bin, SetEnd::DropRowWriter, max_rows)),
        5 => steps.push(Step::NoMoreResults),
        _ => steps.push(Step::DropResultWriter),
    }
    Program { steps }
}

pub fn gen_prepare(g: &mut G<'_>, id: u32, nparams: usize) -> PrepProg {
    let params = gen_cols(g, nparams, false);
    let nc = gen_ncols(g).min(40);
    let cols = gen_cols(g, nc, false);
    PrepProg::Reply { id, params, cols }
}

// ------------------------------------------------------------------------------------------
// schedules

/// A chunk schedule for a client stream whose messages end at `msg_ends`.
pub fn gen_schedule(g: &mut G<'_>, stream_len: usize, msg_ends: &[usize]) -> Schedule {
    let mut s = Schedule::default();
    let class = g.weighted(&[3, 2, 3, 4, 3, 3, 3]);
    match class {
        0 => s.sizes = vec![usize::MAX / 2],
        1 => {
            if stream_len <= 200_000 {
                s.sizes = vec![1]
            } else {
                s.sizes = vec![1, 2, 3, 1 << 20]
            }
        }
        2 => {
            // tiny reads, end inside headers
            let n = g.usize_in(1, 6);
            s.sizes = (0..n).map(|_| g.usize_in(1, 5)).collect();
            if stream_len > 200_000 {
                s.sizes.push(1 << 20);
            }
        }
        3 => {
            let n = g.usize_in(1, 8);
            s.sizes = (0..n)
                .map(|_| *g.pick(&[1usize, 2, 3, 4, 5, 7, 8, 13, 64, 100, 1000, 4095, 4096, 4097, 8192, 65_536, 1 << 20]))
                .collect();
            if stream_len > 200_000 && s.sizes.iter().all(|&x| x < 4096) {
                s.sizes.push(1 << 20);
            }
        }
        4 => {
            // exact messages
            let mut prev = 0;
            for &e in msg_ends {
                if e > prev {
                    s.sizes.push(e - prev);
                }
                prev = e;
            }
            if s.sizes.is_empty() {
                s.sizes.push(1);
            }
        }
        5 => {
            // k whole messages plus h bytes of the next header / body
            let mut prev = 0;
            let mut i = 0;
            while i < msg_ends.len() {
                let k = g.usize_in(1, 4);
                let j = (i + k - 1).min(msg_ends.len() - 1);
                let extra = *g.pick(&[0usize, 1, 2, 3, 4, 5]);
                let cut = (msg_ends[j] + extra).min(stream_len);
                if cut > prev {
                    s.sizes.push(cut - prev);
                    prev = cut;
                }
                i = j + 1;
            }
            s.sizes.push(usize::MAX / 2);
        }
        _ => {
            // cuts just before / inside every header: read up to (end - d), d in 0..=3, then tiny
            let mut prev = 0;
            for &e in msg_ends {
                let d = g.usize_in(0, 3);
                let cut = e.saturating_sub(d).max(prev);
                if cut > prev {
                    s.sizes.push(cut - prev);
                    prev = cut;
                }
                let tiny = g.usize_in(1, 3);
                let cut2 = (prev + tiny).min(stream_len);
                if cut2 > prev {
                    s.sizes.push(cut2 - prev);
                    prev = cut2;
                }
            }
            s.sizes.push(usize::MAX / 2);
        }
    }
    if g.chance(1, 4) {
        let n = g.usize_in(1, 4);
        s.write_accept = (0..n).map(|_| *g.pick(&[0usize, 1, 2, 3, 7, 100, 4096])).collect();
    }
    s
}

pub fn describe_schedule(s: &Schedule) -> &'static str {
    if s.sizes.len() == 1 && s.sizes[0] > 1 << 30 {
        "all-at-once"
    } else if s.sizes == [1] {
        "one-byte"
    } else {
        "mixed"
    }
}

// ------------------------------------------------------------------------------------------
// misc

pub fn gen_seq(g: &mut G<'_>) -> u8 {
    if g.chance(1, 4) {
        g.byte()
    } else {
        0
    }
}

/// Does the text resemble one of the statements the library answers itself, in *any* spelling
/// (other case, extra blanks, leading blanks)?  Such text is "grey": a library may legitimately
/// treat it either way, so generators of ordinary queries avoid it.
pub fn looks_builtin_or_grey(t: &str) -> bool {
    let l = t.trim_start().to_ascii_lowercase();
    if l.starts_with("use") {
        let rest = &l[3..];
        return rest.is_empty() || rest.starts_with(|c: char| c.is_whitespace() || c == '`');
    }
    if l.starts_with("select") {
        let rest = l[6..].trim_start();
        return rest.starts_with("@@");
    }
    false
}

/// A statement the library would answer itself, behind a character that is neither part of it nor
/// white space (a byte order mark, a zero-width space, a control character, ...): not that statement.
pub fn gen_prefixed_builtin(g: &mut G<'_>) -> String {
    if g.chance(1, 3) {
        // ... or behind a comment, as drivers and tools send them (the text is still the shim's,
        // verbatim, comment included)
        let pre = *g.pick(&[
            "/* mysql-connector-j-8.1.0 (Revision: 7b6f9a337afe6ccb41823df485bf848ca7952b09) */",
            "/* mysql-connector-java-8.0.28 (Revision: 7ff2161da3899f379fb3171b6538b191b1c5c7e2) */",
            "/* ApplicationName=DBeaver 23.1 - Main */ ",
            "/*!40101 SET NAMES utf8 */;",
            "/* */",
            "/**/",
            "/*+ MAX_EXECUTION_TIME(1000) */ ",
            "-- ping\n",
            "# tag\n",
            "/* a */ /* b */",
        ]);
        let stmt = *g.pick(&["SELECT @@max_allowed_packet", "SELECT  @@session.auto_increment_increment AS auto_increment_increment", "select @@version_comment limit 1", "USE db", "use `db`;", "UPDATE t SET a = a + 1", "SELECT 1"]);
        return format!("{}{}", pre, stmt);
    }
    let pre = *g.pick(&["\u{feff}", "\u{200b}", "\u{feff}\u{feff}", "\u{0}", "\u{1}", "\u{7f}", "é", "(", "\\", "_", "1", "\u{2060}", "\u{fffd}"]);
    let stmt = *g.pick(&["SELECT @@max_allowed_packet", "select @@version_comment limit 1", "SELECT @@socket", "USE db", "use `db`;", "USE a", "SELECT 1"]);
    format!("{}{}", pre, stmt)
}

pub fn gen_query_text(g: &mut G<'_>) -> String {
    // certainly not one of the built-in statements, in any spelling
    let body = match g.weighted(&[10, 6, 2, 1]) {
        0 => g.pick(&["SELECT 1", "INSERT INTO t VALUES (1)", "select * from foo", "SHOW TABLES", "x"]).to_string(),
        1 => gen_string(g, false),
        3 => gen_prefixed_builtin(g),
        _ => g.pick(&["SELECT @x", "SELECT 1 -- @@", "SELEC @@", "USER()", "USEFUL", "use_db", "usedb", "SELECT @", "SELECTED @@", "(SELECT @@x)"]).to_string(),
    };
    if body.is_empty() || looks_builtin_or_grey(&body) {
        format!("q{}", body)
    } else {
        body
    }
}

pub fn ping() -> Cmd {
    Cmd::Ping
}

// ------------------------------------------------------------------------------------------
// whole conversations with writer programs (shared by C03, C05, C12, C19)

pub struct ConvOpts {
    pub max_cmds: usize,
    pub max_rows: usize,
    pub sentinels: bool,
    pub default_init_sometimes: bool,
    pub quit_sometimes: bool,
}

pub fn gen_use_stmt(g: &mut G<'_>) -> (String, String) {
    // (query text, bare name) in the spellings clients emit
    let name: String = match g.weighted(&[5, 2]) {
        0 => {
            let n = g.usize_in(1, 10);
            (0..n).map(|_| *g.pick(&['a', 'b', 'z', '_', '0', '9', 'X', 'é'])).collect()
        }
        // (quoted identifiers may hold any character; MySQL only forbids a trailing blank)
        _ => g.pick(&["db", "my db", "a;b", "x-y", "test", "a;", ";a", ";", " a", "\ta", "a;;", ";a b;", "a.b", "use", "é;"]).to_string(),
    };
    let quoted = name.chars().any(|c| !(c.is_alphanumeric() || c == '_')) || g.chance(1, 3);
    let kw = if g.coin() { "USE" } else { "use" };
    let mut q = format!("{} ", kw);
    if g.chance(1, 5) {
        q.push(' ');
    }
    if quoted {
        q.push('`');
        q.push_str(&name);
        q.push('`');
    } else {
        q.push_str(&name);
    }
    if g.chance(1, 3) {
        q.push(';');
    }
    if g.chance(1, 5) {
        q.push_str(*g.pick(&[" ", "\n", "  ", "\t"]));
    }
    (q, name)
}

pub fn gen_init_prog(g: &mut G<'_>) -> InitProg {
    if g.chance(1, 4) {
        InitProg::Error { kind: *g.pick(&[1049u16, 1044, 1046]), msg: gen_error_msg(g) }
    } else {
        InitProg::Ok
    }
}

/// What a client announces about itself in the handshake response and the server has no business
/// acting on for any of the properties: its max_packet_size (real clients say 4 MiB, 16 MiB,
/// 1 GiB; anything is legal) and its character set / collation byte.
pub fn gen_client_announcements(g: &mut G<'_>) -> (u32, u8) {
    let max_packet = match g.weighted(&[3, 5, 1]) {
        0 => 1 << 24,
        1 => *g.pick(&[0u32, 1024, 4096, 65_535, 65_536, 1 << 20, 4 << 20, (1 << 24) - 1, 1 << 30, u32::MAX]),
        _ => g.raw(),
    };
    let charset = match g.weighted(&[3, 5, 1]) {
        0 => 0x21,
        1 => *g.pick(&[8u8, 33, 45, 46, 63, 224, 255, 0]),
        _ => g.byte(),
    };
    (max_packet, charset)
}

/// apply `gen_client_announcements` to a 4.1-layout handshake response
pub fn vary_announcements(g: &mut G<'_>, hs: &mut Handshake) {
    let (mp, cs) = gen_client_announcements(g);
    match &mut hs.kind {
        HsKind::V41 { max_packet, charset, .. } => {
            *max_packet = mp;
            *charset = cs;
        }
        HsKind::V320 { max_packet, .. } => *max_packet = mp & 0xff_ffff,
        HsKind::Raw(_) => {}
    }
}

/// text for a PREPARE: one time in four a text that was prepared before on this connection
fn gen_prepare_text(g: &mut G<'_>, seen: &mut Vec<Vec<u8>>) -> Vec<u8> {
    if !seen.is_empty() && g.chance(1, 4) {
        return g.pick(&seen[..]).clone();
    }
    let t = gen_query_text(g).into_bytes();
    seen.push(t.clone());
    t
}

/// Commands + actions.  Executes refer to statements prepared earlier in the conversation
/// (with zero parameters, so the parameter block is empty).
pub fn gen_conv(g: &mut G<'_>, o: &ConvOpts) -> Conversation {
    let n = g.usize_in(1, o.max_cmds.max(1));
    let mut cmds: Vec<Cmd> = Vec::new();
    let mut actions: Vec<Action> = Vec::new();
    // live statements: (id, declared parameter count, which parameters have long data pending)
    let mut live: Vec<(u32, usize, Vec<bool>)> = Vec::new();
    let mut next_id = 1u32;
    // the last query with its answer, and the texts prepared so far (things that come again)
    let mut last_query: Option<(Cmd, Action)> = None;
    let mut prepared_texts: Vec<Vec<u8>> = Vec::new();
    for _ in 0..n {
        match g.weighted(&[8, 6, 3, 2, 2, 2, 2, 1, 1, 1, if last_query.is_some() { 2 } else { 0 }]) {
            10 => {
                // the same query once more, answered in exactly the same way
                let (c, a) = last_query.clone().unwrap();
                cmds.push(c);
                actions.push(a);
            }
            0 => {
                let c = Cmd::Query { text: Blob::Lit(gen_query_text(g).into_bytes()) };
                let a = Action::Result(gen_program(g, false, o.max_rows));
                last_query = Some((c.clone(), a.clone()));
                cmds.push(c);
                actions.push(a);
            }
            1 => {
                // execute (prepare first if nothing is live)
                if live.is_empty() || g.chance(1, 4) {
                    let id = if g.chance(1, 6) { *g.pick(&[0u32, u32::MAX, 0x0100_0000]) } else { next_id };
                    next_id += 1;
                    // mostly no parameters (an empty parameter block); sometimes two, so that long
                    // data has a parameter to address
                    let np = if g.chance(1, 3) { 2 } else { 0 };
                    cmds.push(Cmd::Prepare { text: Blob::Lit(gen_prepare_text(g, &mut prepared_texts)) });
                    actions.push(Action::Prepare(gen_prepare(g, id, np)));
                    live.retain(|(x, _, _)| *x != id);
                    live.push((id, np, vec![false; np]));
                    if o.sentinels {
                        cmds.push(Cmd::Ping);
                    }
                }
                let k = g.below(live.len() as u64) as usize;
                let (id, np, pending) = live[k].clone();
                // streamed parameters are omitted inline (as clients do), the others are sent as LONG
                let params: Vec<Param> = (0..np)
                    .map(|i| if pending[i] { Param { coltype: T_BLOB, unsigned: false, value: PVal::LongData } } else { Param { coltype: T_LONG, unsigned: false, value: PVal::Int(g.below(1000)) } })
                    .collect();
                live[k].2 = vec![false; np];
                cmds.push(Cmd::Execute { id, params, send_types: np > 0, flags: 0, iterations: 1 });
                actions.push(Action::Result(gen_program(g, true, o.max_rows)));
            }
            2 => {
                cmds.push(Cmd::Prepare { text: Blob::Lit(gen_prepare_text(g, &mut prepared_texts)) });
                if g.chance(1, 4) {
                    actions.push(Action::Prepare(PrepProg::Error { kind: gen_error_kind(g), msg: gen_error_msg(g) }));
                } else {
                    let id = next_id;
                    next_id += 1;
                    let np = *g.pick(&[0usize, 0, 1, 3]);
                    // statements with parameters are never executed here
                    actions.push(Action::Prepare(gen_prepare(g, id.wrapping_add(5000), np)));
                }
            }
            3 => {
                let (q, _) = gen_use_stmt(g);
                cmds.push(Cmd::Query { text: Blob::Lit(q.into_bytes()) });
                actions.push(Action::Init(gen_init_prog(g)));
            }
            4 => {
                cmds.push(Cmd::InitDb { name: Blob::Lit(gen_name(g).into_bytes()) });
                actions.push(Action::Init(gen_init_prog(g)));
            }
            5 => cmds.push(Cmd::Ping),
            6 => {
                let q = g.pick(&["SELECT @@max_allowed_packet", "select @@max_allowed_packet", "SELECT @@version_comment limit 1", "select @@x", "SELECT @@"]).to_string();
                cmds.push(Cmd::Query { text: Blob::Lit(q.into_bytes()) });
            }
            7 => cmds.push(Cmd::FieldList { arg: gen_bytes(g, false) }),
            8 => {
                // close: a live statement or an unknown id
                if !live.is_empty() && g.coin() {
                    let i = g.below(live.len() as u64) as usize;
                    let (id, _, _) = live.remove(i);
                    cmds.push(Cmd::Close { id });
                } else {
                    cmds.push(Cmd::Close { id: 900_000 + g.below(10) as u32 });
                }
            }
            _ => {
                // long data for a parameter the statement has (an index beyond the declared
                // parameters addresses nothing: what a server does with it is left open)
                if let Some(st) = live.iter_mut().find(|(_, np, _)| *np > 0) {
                    let p = g.below(st.1 as u64) as usize;
                    st.2[p] = true;
                    cmds.push(Cmd::LongData { id: st.0, param: p as u16, data: Blob::Lit(gen_bytes(g, false)) });
                } else {
                    cmds.push(Cmd::Ping);
                }
            }
        }
        if o.sentinels {
            cmds.push(Cmd::Ping);
        }
    }
    if o.quit_sometimes && g.chance(1, 3) {
        cmds.push(Cmd::Quit);
    }
    let mut c = Conversation::new(cmds, actions);
    // what follows the handshake must not depend on which legal handshake response it was
    match g.weighted(&[6, 1, 1]) {
        0 => {
            if g.coin() {
                vary_announcements(g, &mut c.hs);
            }
        }
        1 => {
            c.hs.kind = HsKind::V320 { caps: (g.raw() & CAP_FORMAT_NEUTRAL) as u16, max_packet: g.raw() & 0xff_ffff, user: b"verif".to_vec(), tail: vec![0] };
        }
        _ => {
            // (only bits that change no packet format: a server that starts honouring, say,
            // DEPRECATE_EOF for clients that ask for it would rightly answer those differently)
            c.hs.kind = HsKind::V41 { caps: (g.raw() & CAP_FORMAT_NEUTRAL) | CAP_PROTOCOL_41 | CAP_SECURE_CONNECTION, max_packet: g.raw(), charset: g.byte(), user: b"verif".to_vec(), tail: vec![0] };
            c.hs.reserved = g.bytes(23);
        }
    }
    if o.default_init_sometimes && g.chance(1, 5) {
        c.default_init = true;
        // the scripted init actions are not consumed by a shim that keeps the default on_init
        c.actions.retain(|a| !matches!(a, Action::Init(_)));
    }
    c
}

// ------------------------------------------------------------------------------------------
// rows laid out against the packet boundaries

fn lenenc_prefix(n: usize) -> usize {
    if n < 251 {
        1
    } else if n < 65_536 {
        3
    } else if n < (1 << 24) {
        4
    } else {
        9
    }
}

/// One row of 2-6 cells whose encoded form is longer than a wire packet (2^24-1 bytes) and whose
/// cell boundaries are placed on purpose relative to the packet boundaries of the row message:
/// "fill" cells end within +-12 bytes of a multiple of 2^24-1 (so that whatever follows - an
/// integer, a short string, a NULL marker, another big value - starts before, at or after the
/// boundary, or straddles it), "exact" cells have lengths around 1x, 2x and 3x the packet size,
/// and small cells sit before, between and after them.  The row takes 17-70 MB on the wire.
/// `bin`: laid out for the binary protocol (fixed-width integers, 0x00 header and NULL bitmap).
pub fn gen_big_layout_row(g: &mut G<'_>, bin: bool) -> (Vec<ColSpec>, RowProg) {
    const U: usize = crate::wire::MAX_PAYLOAD;
    let ncells = g.usize_in(2, 6);
    let bitmap = if bin { 1 + (ncells + 7 + 2) / 8 } else { 0 };
    let mut off = bitmap;
    let mut cols = Vec::new();
    let mut cells = Vec::new();
    let mut bigs = 0;
    for i in 0..ncells {
        let room = off < 3 * U + U / 4;
        let want_big = room && (bigs == 0 && i + 1 == ncells || g.chance(if bigs == 0 { 1 } else { 2 }, 3 + bigs as u64));
        if want_big {
            bigs += 1;
            let len = if g.chance(2, 3) {
                // fill: end at k*U + d
                let k = off / U + 1 + (if off < U && g.chance(1, 4) { 1 } else { 0 }) + (if off < U && g.chance(1, 10) { 1 } else { 0 });
                let d = g.irange(-12, 12) as i64;
                let target = (k * U) as i64 + d;
                let t = (target - off as i64).max(70_000) as usize;
                let l = t.saturating_sub(4);
                if l >= (1 << 24) {
                    t - 9
                } else {
                    l
                }
            } else {
                let base = *g.pick(&[U, U, 1 << 24, 2 * U, 3 * U]);
                (base as i64 + g.irange(-12, 12) as i64) as usize
            };
            let seed = g.raw();
            off += lenenc_prefix(len) + len;
            cols.push(ColSpec::simple(&format!("c{}", i), *g.pick(&[T_LONG_BLOB, T_BLOB, T_VAR_STRING]), 0));
            cells.push(if g.coin() { Val::plain(Base::BigBytes { seed, len }) } else { Val { base: Base::BigBytes { seed, len }, wrap: *g.pick(&[Wrap::Ref, Wrap::Some]) } });
        } else {
            match g.weighted(&[4, 2, 2, 1, 1]) {
                0 => {
                    let v = g.i64_biased();
                    off += if bin { 8 } else { 1 + v.to_string().len() };
                    cols.push(ColSpec::simple(&format!("c{}", i), T_LONGLONG, 0));
                    cells.push(Val::plain(Base::I64(v)));
                }
                1 => {
                    let v = g.u64_biased() as u32;
                    off += if bin { 4 } else { 1 + v.to_string().len() };
                    cols.push(ColSpec::simple(&format!("c{}", i), T_LONG, FLAG_UNSIGNED));
                    cells.push(Val::plain(Base::U32(v)));
                }
                2 => {
                    let n = g.usize_in(0, 30);
                    let b = g.bytes(n);
                    off += 1 + n;
                    cols.push(ColSpec::simple(&format!("c{}", i), T_VAR_STRING, 0));
                    cells.push(Val::plain(Base::Slice(b)));
                }
                3 => {
                    off += if bin { 0 } else { 1 };
                    cols.push(ColSpec::simple(&format!("c{}", i), T_LONG, 0));
                    cells.push(Val { base: Base::I32(0), wrap: Wrap::None });
                }
                _ => {
                    let v = g.byte();
                    off += if bin { 1 } else { 1 + v.to_string().len() };
                    cols.push(ColSpec::simple(&format!("c{}", i), T_TINY, FLAG_UNSIGNED));
                    cells.push(Val::plain(Base::U8(v)));
                }
            }
        }
    }
    let form = match g.weighted(&[3, 1, 3, 1]) {
        0 => RowForm::WriteRow,
        1 => RowForm::WriteRowRef,
        2 => RowForm::Cols,
        _ => RowForm::Mixed(g.usize_in(1, ncells - 1)),
    };
    (cols, RowProg { cells, form, offers: vec![] })
}

/// how a big-layout row relates to the packet boundaries (for the evidence histogram)
pub fn classify_big_layout(row: &RowProg) -> Vec<&'static str> {
    const U: usize = crate::wire::MAX_PAYLOAD;
    let mut v = Vec::new();
    let big: Vec<usize> = row.cells.iter().filter_map(|c| if let Base::BigBytes { len, .. } = &c.base { Some(*len) } else { None }).collect();
    if big.len() >= 2 {
        v.push("row-with->=2-cells-longer-than-a-packet-or-near");
    }
    if big.iter().any(|&l| l >= 3 * U - 16) {
        v.push("cell>=3-packets");
    } else if big.iter().any(|&l| l >= 2 * U - 16) {
        v.push("cell>=2-packets");
    }
    if big.iter().sum::<usize>() >= 3 * U {
        v.push("row>=3-packets");
    }
    if let Some(p) = row.cells.iter().position(|c| matches!(c.base, Base::BigBytes { .. })) {
        if p + 1 < row.cells.len() {
            v.push("cells-after-the-first-big-one");
        }
        if p > 0 {
            v.push("cells-before-the-first-big-one");
        }
    }
    v
}
