//! Programmable recording shim.

use crate::engine;
use crate::transport::{TState, Transport};
use crate::vals::*;
use msql_srv::{
    AuthenticationContext, Column, ErrorKind, InitWriter, MysqlShim, ParamParser, QueryResultWriter, RowWriter, StatementMetaWriter,
    ValueInner,
};
use serde::{Deserialize, Serialize};
use std::cell::RefCell;
use std::collections::VecDeque;
use std::io;
use std::rc::Rc;

// ------------------------------------------------------------------------------------------
// writer programs

#[derive(Clone, Copy, Debug, PartialEq, Eq, Serialize, Deserialize)]
pub enum RowForm {
    /// `write_row(cells)` with the harness' own value enum as item type
    WriteRow,
    /// `write_row(&cells)` (items by reference)
    WriteRowRef,
    /// `write_col` per cell with the concrete Rust type, then `end_row`
    Cols,
    /// `write_col` per cell, no `end_row` (only legal for the last row: finish ends it)
    ColsOpen,
    /// the first cell(s) with `write_col`, the rest of the row with `write_row` (unusual but
    /// legal: write_row completes the row that write_col opened); `usize` = cells via write_col
    Mixed(usize),
    /// zero-column resultsets only: `end_row()` called this many times in a loop (rows of a
    /// zero-column resultset carry nothing, so a shim can end billions of them)
    EndRowTimes(u64),
    /// fewer cells than columns written with `write_col`, then an explicit `end_row()`, which has to
    /// refuse the short row; the shim then gives that row up and carries on with the next one (if
    /// the writer lets it - see `ShimState::failed_after_refused_offer`).  Not part of the response.
    ShortEndRow,
}

#[derive(Clone, Debug, PartialEq, Serialize, Deserialize)]
pub struct RowProg {
    pub cells: Vec<Val>,
    pub form: RowForm,
    /// refused offers: `(i, v)` = before cell `i` is written with `write_col` (after the last cell
    /// when `i == cells.len()`), the shim first offers `v` for that column; `v` is chosen so that
    /// the column cannot carry it (NULL for NOT NULL, a value of a foreign type, a surplus column).
    /// The library has to refuse it with an error, and the shim then carries on with the row the
    /// way a shim with a fallback value does.  Only honoured by the `write_col` forms.
    #[serde(default)]
    pub offers: Vec<(usize, Val)>,
}

#[derive(Clone, Debug, PartialEq, Serialize, Deserialize)]
pub enum SetEnd {
    FinishOne,
    Finish,
    FinishError { kind: u16, msg: Vec<u8> },
    DropRowWriter,
}

#[derive(Clone, Debug, PartialEq, Serialize, Deserialize)]
pub enum Step {
    CompleteOne { rows: u64, id: u64 },
    Set { cols: Vec<ColSpec>, rows: Vec<RowProg>, end: SetEnd },
    Completed { rows: u64, id: u64 },
    Error { kind: u16, msg: Vec<u8> },
    NoMoreResults,
    DropResultWriter,
}

#[derive(Clone, Debug, PartialEq, Serialize, Deserialize, Default)]
pub struct Program {
    pub steps: Vec<Step>,
}

impl Program {
    pub fn completed(rows: u64, id: u64) -> Program {
        Program { steps: vec![Step::Completed { rows, id }] }
    }
}

#[derive(Clone, Debug, PartialEq, Serialize, Deserialize)]
pub enum PrepProg {
    Reply { id: u32, params: Vec<ColSpec>, cols: Vec<ColSpec> },
    Error { kind: u16, msg: Vec<u8> },
}

#[derive(Clone, Debug, PartialEq, Serialize, Deserialize)]
pub enum InitProg {
    Ok,
    Error { kind: u16, msg: Vec<u8> },
}

#[derive(Clone, Debug, PartialEq, Serialize, Deserialize)]
pub enum Action {
    Result(Program),
    Prepare(PrepProg),
    Init(InitProg),
}

// ------------------------------------------------------------------------------------------
// recorded events

#[derive(Clone, Debug, PartialEq, Serialize)]
pub enum Inner {
    Null,
    Bytes(Vec<u8>),
    Int(i64),
    UInt(u64),
    Double(u64),
    Date(Vec<u8>),
    Time(Vec<u8>),
    Datetime(Vec<u8>),
}

#[derive(Clone, Debug, PartialEq, Serialize)]
pub enum Conv {
    NotTried,
    U8(u8),
    I8(i8),
    U16(u16),
    I16(i16),
    U32(u32),
    I32(i32),
    U64(u64),
    I64(i64),
    F32(u32),
    F64(u64),
    Bytes(Vec<u8>),
    Date(i32, u32, u32),
    DateTime(i32, u32, u32, u32, u32, u32, u32),
    Dur(u64, u32),
    Panicked(String),
}

#[derive(Clone, Debug, PartialEq, Serialize)]
pub struct SeenParam {
    pub coltype: u8,
    pub inner: Inner,
    pub conv: Conv,
    /// for byte values: also converted to &str when valid UTF-8
    pub conv_str: Option<String>,
}

#[derive(Clone, Debug, PartialEq, Serialize)]
pub enum Event {
    Auth { user: Option<Vec<u8>>, certs: Option<Vec<Vec<u8>>> },
    Query(String),
    Prepare(String),
    Execute { id: u32, params: Vec<SeenParam> },
    Close(u32),
    Init(String),
}

impl Event {
    pub fn brief(&self) -> String {
        match self {
            Event::Auth { user, .. } => format!("auth({:?})", user.as_ref().map(|u| String::from_utf8_lossy(u).to_string())),
            Event::Query(q) => format!("query({} bytes: {:?})", q.len(), q.chars().take(24).collect::<String>()),
            Event::Prepare(q) => format!("prepare({} bytes: {:?})", q.len(), q.chars().take(24).collect::<String>()),
            Event::Execute { id, params } => format!("execute({}, {} params)", id, params.len()),
            Event::Close(id) => format!("close({})", id),
            Event::Init(s) => format!("init({:?})", s),
        }
    }
}

#[derive(Clone, Debug)]
pub struct WriterCall {
    pub callback: usize,
    pub name: &'static str,
    pub ok: bool,
    /// for row-level calls: (set index within the program, row index)
    pub row: Option<(usize, usize)>,
}

#[derive(Debug)]
pub enum ShimError {
    Io(io::Error),
    Tagged(u32),
}

impl From<io::Error> for ShimError {
    fn from(e: io::Error) -> Self {
        ShimError::Io(e)
    }
}

#[derive(Default)]
pub struct ShimState {
    pub events: Vec<Event>,
    /// transport op count at the start of each callback
    pub event_ops: Vec<usize>,
    pub calls: Vec<WriterCall>,
    pub mismatches: Vec<String>,
    pub actions: VecDeque<Action>,
    /// (callback index, tag): return `Err(Tagged(tag))` at the start of that callback
    pub fail_at: Option<(usize, u32)>,
    /// reject in after_authentication with this tag
    pub reject_auth: Option<u32>,
    pub tls: Option<std::sync::Arc<rustls::ServerConfig>>,
    /// record conversions of parameter values
    pub convert_params: bool,
    /// number of fallible callbacks started (auth, query, prepare, execute, init)
    pub n_callbacks: usize,
    /// no scripted actions: query/execute -> completed(0,0), init -> ok, prepare -> reply with the
    /// next id of `auto_ids` (or error when that is None), zero columns and `auto_nparams` parameters
    pub auto: bool,
    pub auto_ids: VecDeque<Option<(u32, usize)>>,
    /// auto mode: error kinds for the result callbacks, in order (None / exhausted = completed(0,0))
    pub auto_errs: VecDeque<Option<u16>>,
    /// leak (instead of drop) a RowWriter whose row-level call returned Err
    pub forget_on_refusal: bool,
    /// per execution: how many parameters the shim pulls from the iterator (None / missing = all)
    pub param_takes: VecDeque<Option<usize>>,
    /// per result program (in order): after running it, return this tagged error from the callback
    pub then_fail: VecDeque<Option<u32>>,
    /// offers (see `RowProg::offers`) that the library accepted instead of refusing
    pub offers_accepted: Vec<String>,
    pub offers_refused: usize,
    /// a row-level call failed in a resultset in which an offer had been refused before: the
    /// library treats a RowWriter as unusable after a refusal (which no property forbids)
    pub failed_after_refused_offer: bool,
}

pub struct Shim {
    pub st: Rc<RefCell<ShimState>>,
    pub tr: Option<Rc<RefCell<TState>>>,
}

impl Shim {
    pub fn new(st: Rc<RefCell<ShimState>>, tr: Option<Rc<RefCell<TState>>>) -> Self {
        Shim { st, tr }
    }
    fn begin(&self, ev: Event) -> Result<usize, ShimError> {
        let mut st = self.st.borrow_mut();
        let ops = self.tr.as_ref().map(|t| t.borrow().n_ops).unwrap_or(0);
        st.events.push(ev);
        st.event_ops.push(ops);
        let idx = st.n_callbacks;
        st.n_callbacks += 1;
        if let Some((k, tag)) = st.fail_at {
            if k == idx {
                return Err(ShimError::Tagged(tag));
            }
        }
        Ok(idx)
    }
    fn next_action(&self) -> Option<Action> {
        self.st.borrow_mut().actions.pop_front()
    }
    fn auto_mode(&self) -> bool {
        self.st.borrow().auto
    }
    fn log_call(&self, cb: usize, name: &'static str, ok: bool, row: Option<(usize, usize)>) {
        self.st.borrow_mut().calls.push(WriterCall { callback: cb, name, ok, row });
    }
    fn mismatch(&self, what: String) {
        self.st.borrow_mut().mismatches.push(what);
    }
    /// Offer the values scripted for column `i` of `row`; each must be refused (`InvalidData`),
    /// after which the shim goes on with the row.  Any other error is returned like every error.
    fn offer<W: io::Read + io::Write>(&self, cb: usize, at: Option<(usize, usize)>, row: &RowProg, i: usize, rw: &mut RowWriter<'_, W>) -> io::Result<()> {
        for (_, v) in row.offers.iter().filter(|(k, _)| *k == i) {
            let r = dispatch(v, &mut ColSink(rw));
            // (not entered in `calls`: that log is about the calls that build the response)
            let _ = cb;
            match r {
                Ok(()) => self.st.borrow_mut().offers_accepted.push(format!("{:?} offered for column {} of row {:?}", v, i, at)),
                Err(e) if e.kind() == io::ErrorKind::InvalidData => self.st.borrow_mut().offers_refused += 1,
                Err(e) => return Err(e),
            }
        }
        Ok(())
    }
}

pub fn error_kind(code: u16) -> ErrorKind {
    ErrorKind::from(code)
}

struct ColSink<'r, 'a, W: io::Read + io::Write>(&'r mut RowWriter<'a, W>);
impl<'r, 'a, W: io::Read + io::Write> Sink for ColSink<'r, 'a, W> {
    fn put<T: msql_srv::ToMysqlValue>(&mut self, v: T) -> io::Result<()> {
        self.0.write_col(v)
    }
}

macro_rules! logged {
    ($shim:expr, $cb:expr, $name:expr, $row:expr, $e:expr) => {{
        let r = $e;
        $shim.log_call($cb, $name, r.is_ok(), $row);
        r
    }};
}

impl Shim {
    /// Interpret a writer program the way idiomatic shim code is written: the first `Err` from
    /// any writer call is returned with `?`.
    fn run_program<'a, W: io::Read + io::Write>(
        &self,
        cb: usize,
        prog: &Program,
        columns: &[&'a [Column]],
        w: QueryResultWriter<'a, W>,
    ) -> io::Result<()> {
        let mut w = Some(w);
        for (si, step) in prog.steps.iter().enumerate() {
            let cur = match w.take() {
                Some(c) => c,
                None => {
                    self.mismatch(format!("program step {} after a terminal step", si));
                    return Ok(());
                }
            };
            match step {
                Step::CompleteOne { rows, id } => {
                    w = Some(logged!(self, cb, "complete_one", None, cur.complete_one(*rows, *id))?);
                }
                Step::Completed { rows, id } => {
                    logged!(self, cb, "completed", None, cur.completed(*rows, *id))?;
                }
                Step::Error { kind, msg } => {
                    logged!(self, cb, "error", None, cur.error(error_kind(*kind), &msg[..]))?;
                }
                Step::NoMoreResults => {
                    logged!(self, cb, "no_more_results", None, cur.no_more_results())?;
                }
                Step::DropResultWriter => {
                    drop(cur);
                    self.log_call(cb, "drop_result_writer", true, None);
                }
                Step::Set { rows, end, .. } => {
                    let mut rw = logged!(self, cb, "start", None, cur.start(columns[si]))?;
                    let written = (|| -> io::Result<()> {
                        for (ri, row) in rows.iter().enumerate() {
                            let at = Some((si, ri));
                            match row.form {
                                RowForm::WriteRow => {
                                    logged!(self, cb, "write_row", at, rw.write_row(row.cells.clone()))?;
                                }
                                RowForm::WriteRowRef => {
                                    logged!(self, cb, "write_row", at, rw.write_row(&row.cells))?;
                                }
                                RowForm::ShortEndRow => {
                                    for cell in &row.cells {
                                        logged!(self, cb, "write_col", at, dispatch(cell, &mut ColSink(&mut rw)))?;
                                    }
                                    match rw.end_row() {
                                        Ok(()) => self.st.borrow_mut().offers_accepted.push(format!("end_row() accepted row {:?} with {} of its cells written", at, row.cells.len())),
                                        Err(e) if e.kind() == io::ErrorKind::InvalidData => self.st.borrow_mut().offers_refused += 1,
                                        Err(e) => return Err(e),
                                    }
                                }
                                RowForm::EndRowTimes(n) => {
                                    let mut r = Ok(());
                                    for _ in 0..n {
                                        r = rw.end_row();
                                        if r.is_err() {
                                            break;
                                        }
                                    }
                                    logged!(self, cb, "end_row", at, r)?;
                                }
                                RowForm::Mixed(k) => {
                                    let k = k.min(row.cells.len());
                                    for (ci, cell) in row.cells[..k].iter().enumerate() {
                                        self.offer(cb, at, row, ci, &mut rw)?;
                                        logged!(self, cb, "write_col", at, dispatch(cell, &mut ColSink(&mut rw)))?;
                                    }
                                    logged!(self, cb, "write_row", at, rw.write_row(row.cells[k..].to_vec()))?;
                                }
                                RowForm::Cols | RowForm::ColsOpen => {
                                    for (ci, cell) in row.cells.iter().enumerate() {
                                        self.offer(cb, at, row, ci, &mut rw)?;
                                        logged!(self, cb, "write_col", at, dispatch(cell, &mut ColSink(&mut rw)))?;
                                    }
                                    self.offer(cb, at, row, row.cells.len(), &mut rw)?;
                                    if row.form == RowForm::Cols {
                                        logged!(self, cb, "end_row", at, rw.end_row())?;
                                    }
                                }
                            }
                        }
                        Ok(())
                    })();
                    if let Err(e) = written {
                        if rows.iter().any(|r| !r.offers.is_empty() || r.form == RowForm::ShortEndRow) && self.st.borrow().offers_refused > 0 {
                            self.st.borrow_mut().failed_after_refused_offer = true;
                            // (the row in progress is in an unknown state: leak the writer rather than
                            // have its destructor complete it)
                            std::mem::forget(rw);
                            return Err(e);
                        }
                        if self.st.borrow().forget_on_refusal {
                            // what happens when a RowWriter is dropped in the middle of a row that was
                            // refused is outside every listed property: do not go there
                            std::mem::forget(rw);
                        }
                        return Err(e);
                    }
                    // (a failing end of the set after a refusal in it is the same either-or as a failing
                    // row-level call: see `failed_after_refused_offer`)
                    let refused_before = rows.iter().any(|r| !r.offers.is_empty() || r.form == RowForm::ShortEndRow) && self.st.borrow().offers_refused > 0;
                    let mark = |st: &Rc<RefCell<ShimState>>, failed: bool| {
                        if failed && refused_before {
                            st.borrow_mut().failed_after_refused_offer = true;
                        }
                    };
                    match end {
                        SetEnd::FinishOne => {
                            let r = logged!(self, cb, "finish_one", None, rw.finish_one());
                            mark(&self.st, r.is_err());
                            w = Some(r?);
                        }
                        SetEnd::Finish => {
                            let r = logged!(self, cb, "finish", None, rw.finish());
                            mark(&self.st, r.is_err());
                            r?;
                        }
                        SetEnd::FinishError { kind, msg } => {
                            let r = logged!(self, cb, "finish_error", None, rw.finish_error(error_kind(*kind), &msg.clone()));
                            mark(&self.st, r.is_err());
                            r?;
                        }
                        SetEnd::DropRowWriter if refused_before => {
                            // after a refusal the writer may consider the row still open, and
                            // dropping a RowWriter in the middle of a row is documented misuse (its
                            // destructor cannot report anything): such a shim has to finish()
                            let r = logged!(self, cb, "finish", None, rw.finish());
                            mark(&self.st, r.is_err());
                            r?;
                        }
                        SetEnd::DropRowWriter => {
                            drop(rw);
                            self.log_call(cb, "drop_row_writer", true, None);
                        }
                    }
                }
            }
        }
        // a program that ends without a terminal step drops the writer
        drop(w);
        Ok(())
    }

    fn result_action<W: io::Read + io::Write>(&self, cb: usize, what: &str, w: QueryResultWriter<'_, W>) -> Result<(), ShimError> {
        let prog = if self.auto_mode() {
            match self.st.borrow_mut().auto_errs.pop_front() {
                Some(Some(kind)) => Program { steps: vec![Step::Error { kind, msg: b"the statement failed".to_vec() }] },
                _ => Program::completed(0, 0),
            }
        } else {
            match self.next_action() {
                Some(Action::Result(p)) => p,
                other => {
                    self.mismatch(format!("{}: no result program scripted (got {:?})", what, other.map(|_| "other action")));
                    Program::completed(0, 0)
                }
            }
        };
        let columns: Vec<Vec<Column>> = prog
            .steps
            .iter()
            .map(|s| match s {
                Step::Set { cols, .. } => cols.iter().map(|c| c.to_column()).collect(),
                _ => Vec::new(),
            })
            .collect();
        // A shim that keeps one column list and answers with prefixes of it (`&all[..k]`): when the
        // column list of one resultset is a prefix of another's in the same program, both are
        // handed to the library as slices of the same allocation.
        let specs: Vec<&[ColSpec]> = prog.steps.iter().map(|s| if let Step::Set { cols, .. } = s { &cols[..] } else { &[][..] }).collect();
        let slices: Vec<&[Column]> = (0..columns.len())
            .map(|i| {
                let master = (0..columns.len()).filter(|&j| specs[j].len() >= specs[i].len() && !specs[i].is_empty() && specs[j][..specs[i].len()] == *specs[i]).max_by_key(|&j| (specs[j].len(), std::cmp::Reverse(j)));
                match master {
                    Some(j) => &columns[j][..specs[i].len()],
                    None => &columns[i][..],
                }
            })
            .collect();
        self.run_program(cb, &prog, &slices, w)?;
        if let Some(Some(tag)) = self.st.borrow_mut().then_fail.pop_front() {
            // the shim reported its result and then gives the connection up
            return Err(ShimError::Tagged(tag));
        }
        Ok(())
    }

    fn do_prepare<W: io::Read + io::Write>(&mut self, query: &str, info: StatementMetaWriter<'_, W>) -> Result<(), ShimError> {
        let cb = self.begin(Event::Prepare(query.to_string()))?;
        let prog = if self.auto_mode() {
            match self.st.borrow_mut().auto_ids.pop_front() {
                Some(Some((id, n))) => PrepProg::Reply { id, params: (0..n).map(|i| ColSpec::simple(&format!("p{}", i), crate::wire::T_LONG, 0)).collect(), cols: vec![] },
                Some(None) => PrepProg::Error { kind: 1064, msg: b"rejected".to_vec() },
                None => PrepProg::Reply { id: 0, params: vec![], cols: vec![] },
            }
        } else {
            match self.next_action() {
                Some(Action::Prepare(p)) => p,
                _ => {
                    self.mismatch("prepare: no prepare program scripted".into());
                    PrepProg::Reply { id: 0, params: vec![], cols: vec![] }
                }
            }
        };
        match prog {
            PrepProg::Reply { id, params, cols } => {
                let params: Vec<Column> = params.iter().map(|c| c.to_column()).collect();
                let cols: Vec<Column> = cols.iter().map(|c| c.to_column()).collect();
                logged!(self, cb, "reply", None, info.reply(id, &params, &cols))?;
            }
            PrepProg::Error { kind, msg } => {
                logged!(self, cb, "prepare_error", None, info.error(error_kind(kind), &msg[..]))?;
            }
        }
        Ok(())
    }

    fn do_execute<W: io::Read + io::Write>(&mut self, id: u32, params: ParamParser<'_>, results: QueryResultWriter<'_, W>) -> Result<(), ShimError> {
        let convert = self.st.borrow().convert_params;
        // as every caller in the repository does: iterate all parameters - unless the case says
        // the shim stops early (`take`)
        let take = self.st.borrow_mut().param_takes.pop_front().flatten().unwrap_or(usize::MAX);
        let mut seen = Vec::new();
        for p in params.into_iter().take(take) {
            let coltype = p.coltype as u8;
            let inner = match p.value.into_inner() {
                ValueInner::NULL => Inner::Null,
                ValueInner::Bytes(b) => Inner::Bytes(b.to_vec()),
                ValueInner::Int(i) => Inner::Int(i),
                ValueInner::UInt(u) => Inner::UInt(u),
                ValueInner::Double(d) => Inner::Double(d.to_bits()),
                ValueInner::Date(b) => Inner::Date(b.to_vec()),
                ValueInner::Time(b) => Inner::Time(b.to_vec()),
                ValueInner::Datetime(b) => Inner::Datetime(b.to_vec()),
            };
            let (conv, conv_str) = if convert { convert_param(&p, &inner) } else { (Conv::NotTried, None) };
            seen.push(SeenParam { coltype, inner, conv, conv_str });
        }
        let cb = self.begin(Event::Execute { id, params: seen })?;
        self.result_action(cb, "execute", results)
    }

    fn do_query<W: io::Read + io::Write>(&mut self, query: &str, results: QueryResultWriter<'_, W>) -> Result<(), ShimError> {
        let cb = self.begin(Event::Query(query.to_string()))?;
        self.result_action(cb, "query", results)
    }

    fn do_init<W: io::Read + io::Write>(&mut self, schema: &str, w: InitWriter<'_, W>) -> Result<(), ShimError> {
        let cb = self.begin(Event::Init(schema.to_string()))?;
        let prog = if self.auto_mode() {
            InitProg::Ok
        } else {
            match self.next_action() {
                Some(Action::Init(p)) => p,
                _ => {
                    self.mismatch("init: no init program scripted".into());
                    InitProg::Ok
                }
            }
        };
        match prog {
            InitProg::Ok => logged!(self, cb, "init_ok", None, w.ok())?,
            InitProg::Error { kind, msg } => logged!(self, cb, "init_error", None, w.error(error_kind(kind), &msg[..]))?,
        }
        Ok(())
    }

    fn do_auth(&mut self, ctx: &AuthenticationContext<'_>) -> Result<(), ShimError> {
        let certs = ctx.tls_client_certs.map(|cs| cs.iter().map(|c| c.as_ref().to_vec()).collect());
        self.begin(Event::Auth { user: ctx.username.clone(), certs })?;
        if let Some(tag) = self.st.borrow().reject_auth {
            return Err(ShimError::Tagged(tag));
        }
        Ok(())
    }
}

fn convert_param(p: &msql_srv::ParamValue<'_>, inner: &Inner) -> (Conv, Option<String>) {
    use msql_srv::ColumnType as CT;
    let v = p.value;
    let unsigned = matches!(inner, Inner::UInt(_));
    let r = engine::catch(|| match (p.coltype, inner) {
        (_, Inner::Null) => (Conv::NotTried, None),
        (CT::MYSQL_TYPE_TINY, _) => (if unsigned { Conv::U8(v.into()) } else { Conv::I8(v.into()) }, None),
        (CT::MYSQL_TYPE_SHORT | CT::MYSQL_TYPE_YEAR, _) => (if unsigned { Conv::U16(v.into()) } else { Conv::I16(v.into()) }, None),
        (CT::MYSQL_TYPE_LONG | CT::MYSQL_TYPE_INT24, _) => (if unsigned { Conv::U32(v.into()) } else { Conv::I32(v.into()) }, None),
        (CT::MYSQL_TYPE_LONGLONG, _) => (if unsigned { Conv::U64(v.into()) } else { Conv::I64(v.into()) }, None),
        (CT::MYSQL_TYPE_FLOAT, _) => {
            let f: f32 = v.into();
            (Conv::F32(f.to_bits()), None)
        }
        (CT::MYSQL_TYPE_DOUBLE, _) => {
            let f: f64 = v.into();
            (Conv::F64(f.to_bits()), None)
        }
        (_, Inner::Bytes(b)) => {
            let got: &[u8] = v.into();
            let s = if std::str::from_utf8(b).is_ok() {
                let s: &str = v.into();
                Some(s.to_string())
            } else {
                None
            };
            (Conv::Bytes(got.to_vec()), s)
        }
        (_, Inner::Date(_)) => {
            use chrono::Datelike;
            let d: chrono::NaiveDate = v.into();
            (Conv::Date(d.year(), d.month(), d.day()), None)
        }
        (_, Inner::Datetime(_)) => {
            use chrono::{Datelike, Timelike};
            let d: chrono::NaiveDateTime = v.into();
            (Conv::DateTime(d.year(), d.month(), d.day(), d.hour(), d.minute(), d.second(), d.nanosecond() / 1000), None)
        }
        (_, Inner::Time(_)) => {
            let d: std::time::Duration = v.into();
            (Conv::Dur(d.as_secs(), d.subsec_micros()), None)
        }
        _ => (Conv::NotTried, None),
    });
    match r {
        Ok(x) => x,
        Err(p) => (Conv::Panicked(format!("{}:{}: {}", engine::rel_file(&p.file), p.line, p.msg)), None),
    }
}

impl MysqlShim<Transport> for Shim {
    type Error = ShimError;
    fn on_prepare(&mut self, query: &str, info: StatementMetaWriter<'_, Transport>) -> Result<(), ShimError> {
        self.do_prepare(query, info)
    }
    fn on_execute(&mut self, id: u32, params: ParamParser<'_>, results: QueryResultWriter<'_, Transport>) -> Result<(), ShimError> {
        self.do_execute(id, params, results)
    }
    fn on_close(&mut self, stmt: u32) {
        let mut st = self.st.borrow_mut();
        let ops = self.tr.as_ref().map(|t| t.borrow().n_ops).unwrap_or(0);
        st.events.push(Event::Close(stmt));
        st.event_ops.push(ops);
    }
    fn on_query(&mut self, query: &str, results: QueryResultWriter<'_, Transport>) -> Result<(), ShimError> {
        self.do_query(query, results)
    }
    fn on_init(&mut self, schema: &str, w: InitWriter<'_, Transport>) -> Result<(), ShimError> {
        self.do_init(schema, w)
    }
    fn tls_config(&self) -> Option<std::sync::Arc<rustls::ServerConfig>> {
        self.st.borrow().tls.clone()
    }
    fn after_authentication(&mut self, ctx: &AuthenticationContext<'_>) -> Result<(), ShimError> {
        self.do_auth(ctx)
    }
}

/// Same shim, but `on_init` is left at the trait's default.
pub struct ShimDefaultInit(pub Shim);

impl MysqlShim<Transport> for ShimDefaultInit {
    type Error = ShimError;
    fn on_prepare(&mut self, query: &str, info: StatementMetaWriter<'_, Transport>) -> Result<(), ShimError> {
        self.0.do_prepare(query, info)
    }
    fn on_execute(&mut self, id: u32, params: ParamParser<'_>, results: QueryResultWriter<'_, Transport>) -> Result<(), ShimError> {
        self.0.do_execute(id, params, results)
    }
    fn on_close(&mut self, stmt: u32) {
        self.0.on_close(stmt)
    }
    fn on_query(&mut self, query: &str, results: QueryResultWriter<'_, Transport>) -> Result<(), ShimError> {
        self.0.do_query(query, results)
    }
    fn tls_config(&self) -> Option<std::sync::Arc<rustls::ServerConfig>> {
        self.0.st.borrow().tls.clone()
    }
    fn after_authentication(&mut self, ctx: &AuthenticationContext<'_>) -> Result<(), ShimError> {
        self.0.do_auth(ctx)
    }
}
