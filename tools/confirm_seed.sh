#!/bin/bash
# Confirm a sub-agent's seeded change in ITS scratch worktree (/tmp/seed/<id>/repo), from its patch.diff:
#   (1) the existing suite passes with the change, (2) the demo fails with it, (3) the demo passes without it.
# (no git stash: the stash is shared between the worktrees of one repository)
ID="$1"; R="/tmp/seed/$ID/repo"; D="${2:-/tmp/seed/$ID}"   # D = artifacts dir (patch.diff, seed_demo.rs)
cd "$R" || exit 2
OUT="$D/confirm.txt"; : > "$OUT"
git checkout -q -- src
git apply "$D/patch.diff" || { echo "patch does not apply" >> "$OUT"; cat "$OUT"; exit 2; }
cp "$D/seed_demo.rs" "$D/seed_demo.rs.keep"
rm -f tests/seed_demo.rs
S=$(cargo test --workspace --no-fail-fast --offline 2>&1 | grep -E "^test result" )
NPASS=$(echo "$S" | sed -E 's/.* ([0-9]+) passed.*/\1/' | paste -sd+ | bc)
NFAIL=$(echo "$S" | sed -E 's/.* ([0-9]+) failed.*/\1/' | paste -sd+ | bc)
echo "suite_with_change: passed=$NPASS failed=$NFAIL" >> "$OUT"
cp "$D/seed_demo.rs.keep" tests/seed_demo.rs
timeout 900 cargo test --offline --test seed_demo >"$D/demo_with.log" 2>&1; echo "demo_with_change_exit: $?" >> "$OUT"
git apply -R "$D/patch.diff"
timeout 900 cargo test --offline --test seed_demo >"$D/demo_without.log" 2>&1; echo "demo_without_change_exit: $?" >> "$OUT"
git apply "$D/patch.diff"
cat "$OUT"
