#!/bin/bash
# Scratch environment for sensitivity experiments: a git worktree of /repo and a copy of the
# harness that builds against it, all outside /repo and /verif.  Nothing here is used by the
# registered checks.
#   tools/scratch.sh setup  <dir>          create <dir>/repo (worktree of /repo HEAD) and <dir>/harness
#   tools/scratch.sh check  <dir> <Cxx> [tier]   build against <dir>/repo and run one check (evidence/failures go to <dir>/home)
#   tools/scratch.sh reset  <dir>          git checkout -- . in <dir>/repo
#   tools/scratch.sh remove <dir>          remove worktree and directory
set -u
CMD="${1:-}"; DIR="${2:-}"
[ -n "$CMD" ] && [ -n "$DIR" ] || { echo "usage: $0 setup|check|reset|remove <dir> ..." >&2; exit 2; }
case "$CMD" in
  setup)
    mkdir -p "$DIR" || exit 2
    [ -d "$DIR/repo" ] || git -C /repo worktree add --detach "$DIR/repo" HEAD >/dev/null 2>&1 || exit 2
    mkdir -p "$DIR/harness" "$DIR/home"
    rsync -a --delete --exclude target /verif/harness/ "$DIR/harness/"
    sed -i "s|path = \"/repo\"|path = \"$DIR/repo\"|" "$DIR/harness/Cargo.toml"
    rsync -a --delete /verif/replays /verif/data /verif/KNOWN_FINDINGS.txt "$DIR/home/"
    ;;
  sync)
    # follow /repo's HEAD (fix commits) and the current harness
    git -C "$DIR/repo" reset -q --hard && git -C "$DIR/repo" clean -fdq && git -C "$DIR/repo" checkout -q --detach "$(git -C /repo rev-parse HEAD)"
    rsync -a --exclude target /verif/harness/ "$DIR/harness/"
    sed -i "s|path = \"/repo\"|path = \"$DIR/repo\"|" "$DIR/harness/Cargo.toml"
    rsync -a --delete /verif/replays /verif/data /verif/KNOWN_FINDINGS.txt "$DIR/home/"
    ;;
  check)
    PROP="${3:?property}"; TIER="${4:-quick}"
    cd "$DIR/harness" || exit 2
    export VERIF_REPO="$DIR/repo" VERIF_HOME="$DIR/home" CARGO_NET_OFFLINE=true
    if ! cargo build --profile verif --offline >"$DIR/build.log" 2>&1; then
      echo "BUILD-FAILED (mutant does not compile?)"; tail -n 15 "$DIR/build.log"; exit 2
    fi
    ./target/verif/vcheck "$PROP" "$TIER" 2>&1
    CODE=$?
    if [ "$CODE" = 3 ]; then echo "VIOLATION property=$PROP (worker aborted)"; exit 1; fi
    exit $CODE
    ;;
  reset)
    # (reset --hard: a failed 3-way apply leaves unmerged paths that `checkout -- .` refuses)
    git -C "$DIR/repo" reset -q --hard && git -C "$DIR/repo" clean -fdq
    ;;
  remove)
    git -C /repo worktree remove --force "$DIR/repo" 2>/dev/null
    rm -rf "$DIR"
    git -C /repo worktree prune
    ;;
  *) echo "unknown command $CMD" >&2; exit 2;;
esac
