#!/bin/bash
# Run checks against every kept seeded change in a scratch worktree (never in /repo):
#   tools/run_seeded.sh [scratch-dir] [tier] [all]     ("all": run every check, not just the broken property's)
S="${1:-/tmp/mut2}"; TIER="${2:-quick}"; ALL="${3:-}"
HERE="$(cd "$(dirname "$0")" && pwd)"
"$HERE/scratch.sh" setup "$S" >/dev/null 2>&1; "$HERE/scratch.sh" sync "$S"
for d in /verif/seeded/*/; do
  id="$(basename "$d")"; prop="$(python3 -c "import json;m=json.load(open('$d/meta.json'));print(m.get('check_with') or m['breaks_property'])")"
  if python3 -c "import json,sys;sys.exit(0 if json.load(open('$d/meta.json')).get('not_pursued') else 1)"; then echo "$id (breaks $prop): not pursued (see meta.json)"; continue; fi
  if [ "$TIER" = quick ] && python3 -c "import json,sys;sys.exit(0 if json.load(open('$d/meta.json')).get('thorough_only') else 1)"; then echo "$id (breaks $prop): reached by the thorough tier only (see meta.json)"; continue; fi
  "$HERE/scratch.sh" reset "$S"
  # patches were written against the /repo HEAD of their time (meta.json base_commit); later fix commits
  # may touch neighbouring lines: fall back to a 3-way apply
  # (patch_rebased.diff: the same change re-made by hand where a later fix commit rewrote the very lines)
  git -C "$S/repo" apply "$d/patch.diff" 2>/dev/null || { [ -f "$d/patch_rebased.diff" ] && git -C "$S/repo" apply "$d/patch_rebased.diff" 2>/dev/null; } || { "$HERE/scratch.sh" reset "$S"; git -C "$S/repo" apply --3way "$d/patch.diff" >/dev/null 2>&1; } || { echo "$id: patch does not apply to the current HEAD (written against $(python3 -c "import json;print(json.load(open('$d/meta.json'))['base_commit'][:8])"))"; "$HERE/scratch.sh" reset "$S"; continue; }
  if [ -n "$ALL" ]; then PROPS="$(seq -f 'C%02g' 1 20)"; else PROPS="$prop"; fi
  RES=""
  for p in $PROPS; do
    "$HERE/scratch.sh" check "$S" "$p" "$TIER" >"$S/last.log" 2>&1; rc=$?
    if grep -q '^HANG-CASE' "$S/last.log"; then rc=1; fi
    RES="$RES $p=$([ $rc = 1 ] && echo DETECTED || ([ $rc = 0 ] && echo green || echo infra$rc))"
  done
  echo "$id (breaks $prop):$RES"
done
"$HERE/scratch.sh" reset "$S"
