#!/bin/bash
# Run ALL quick checks against every kept property-preserving change (seeded_preserving/*) in a
# scratch worktree (never in /repo); every check must stay green.
#   tools/run_preserving.sh [scratch-dir] [tier]
S="${1:-/tmp/mut2}"; TIER="${2:-quick}"
HERE="$(cd "$(dirname "$0")" && pwd)"
"$HERE/scratch.sh" setup "$S" >/dev/null 2>&1; "$HERE/scratch.sh" sync "$S"
for d in /verif/seeded_preserving/*/; do
  id="$(basename "$d")"
  "$HERE/scratch.sh" reset "$S"
  # (patch_rebased.diff: the same change re-made by hand where a later fix commit rewrote the very lines)
  git -C "$S/repo" apply "$d/patch.diff" 2>/dev/null || { [ -f "$d/patch_rebased.diff" ] && git -C "$S/repo" apply "$d/patch_rebased.diff" 2>/dev/null; } || { "$HERE/scratch.sh" reset "$S"; git -C "$S/repo" apply --3way "$d/patch.diff" >/dev/null 2>&1; } || { echo "$id: patch does not apply to the current HEAD"; "$HERE/scratch.sh" reset "$S"; continue; }
  RES=""
  for p in $(seq -f 'C%02g' 1 20); do
    "$HERE/scratch.sh" check "$S" "$p" "$TIER" >"$S/last.log" 2>&1; rc=$?
    grep -q '^HANG-CASE' "$S/last.log" && rc=1
    [ $rc != 0 ] && RES="$RES $p(rc=$rc)"
  done
  echo "$id alarms:${RES:- none}"
done
"$HERE/scratch.sh" reset "$S"
