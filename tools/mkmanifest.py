#!/usr/bin/env python3
"""Regenerates /verif/MANIFEST.json from the table below (kept in one place so it stays valid)."""
import json, os
HERE = os.path.dirname(os.path.dirname(os.path.abspath(__file__)))

# id -> (category, technique, level text, level note)
CHECKS = {
 "C01": ("exploration", "proptest-driven generated conversations + chunk schedules; round-trip oracle (reference framer -> server parser -> recording shim)",
         "Generated search over command sequences x read-chunk schedules (incl. enumerated payload sizes around k*(2^24-1) with 1-5 byte reads around every packet header); the oracle is byte-for-byte equality of what the shim saw with what the reference client framed. Exploration, not proof: absence of violations holds for the generated domain only.",
         "Trusts the harness's own framer/transport (cross-checked by the oracle self-test) and that the in-memory transport models a blocking Read faithfully."),
 "C03": ("exploration", "proptest-driven generated conversations with generated writer-API programs; model-based oracle (abstract interpreter of the program vs. reference response state machine), sentinel PING after every command",
         "Generated search over finite programs of the writer API (chains, zero-column sets, drops, errors after rows, shape-contradicting rows) embedded in command sequences under generated read/write chunkings; the decoded response must equal the abstract interpretation of the program, with the more-results flag on every unit but the last, and a sentinel PING after every command must get exactly one OK with sequence id 1.",
         "Trusts the reference response state machine (written from the protocol documentation) and the program interpreter; documented misuse (dropping a fresh writer, dropping a RowWriter mid-row) is not generated."),
 "C04": ("exploration", "enumerated boundary sizes k*(2^24-1)+d x assemblies plus proptest-generated sizes; round-trip oracle through an independent packet framer and value decoder",
         "Every listed size around 1x and 2x (2^24-1) is realised by several assemblies (text row with cell boundaries before/at/after the limit, binary row, ERR message, huge column name), generated rows of 17-70 MB are laid out against the packet boundaries (several long cells, cells of 3 packets, small cells straddling a boundary), one case in four runs on a transport that fails once and recovers (bytes handed over must stay a prefix of the fault-free output when a packet was cut) and the raw output is re-framed by an independent splitter/reassembler: the message must arrive as one logical message of exactly the intended bytes. Thousands of generated small/medium sizes cover the length-encoding classes.",
         "Messages beyond ~4*(2^24-1) bytes are not explored; trusts the reference framer (its reassembly rule is the documented one)."),
 "C05": ("exploration", "proptest-generated conversations with generated request sequence ids and long responses; invariant oracle over every physical packet",
         "Every packet of every reply is checked against last_request_id+1+i mod 256, for request ids over 0-255 (255 favoured), responses of up to ~1100 packets (enumerated: 2^16 and more), enumerated multi-fragment requests, and one conversation in 20 inside a TLS session (ids of the decrypted packets, also when the shim refuses the client there).",
         "Requests whose own fragments wrap past id 255 are outside the domain (C20 covers them)."),
 "C12": ("exploration", "proptest-generated conversations x arrival schedules (lock-step via an embedded reference client, pipelined, partial chunkings); safety invariant evaluated at every read() of the scripted transport",
         "The liveness-sounding statement is decided as a safety invariant at the only point the server can wait (a read() call): all wholly received commands must already be answered in bytes covered by the last flush(). In lock-step mode the transport only releases the next command when the previous reply was decoded from flushed bytes, so a missing flush shows as 'would block forever'.",
         "Blocking in-memory transport stands in for a socket; plaintext only."),
 "C06": ("exploration", "proptest-generated text resultsets over every ToMysqlValue implementor; round-trip oracle (reference text-row decoder + canonical text grammar per intended type, floats bit-for-bit) with mysql_common's from_value as second opinion",
         "Generated search over values of every encodable Rust type (boundary-biased full integer ranges, all finite float bit patterns, strings across the three length-encoding classes, dates in years 0-9999, temporals with and without microseconds, Option/reference/generic spellings) in generated row/column arrangements, sent through run_on and decoded by the reference client; values are compared semantically, so legal alternative spellings are not flagged.",
         "Domain limited to what MySQL's types can hold (finite floats, whole microseconds, non-negative durations)."),
 "C07": ("exploration", "proptest-generated binary resultsets and single encoder calls; round-trip oracle (reference binary-row decoder driven only by the advertised column definitions) plus an acceptance model (natural pair => accepted and exact, foreign type => refused, else exact-or-refused)",
         "Generated search over column lists of 1-600 columns, NULL patterns in every spelling, type-matching values in every passing mode through the wire; and over arbitrary (value, column) pairs through the public encoder for the universal rule 'Ok => decodes exactly, otherwise refused'.",
         "assert!-refusals are counted as refusals; opposite-signedness writes are exercised only through the public encoder."),
 "C15": ("exploration", "exhaustive enumeration of all 8/16-bit values and all boundary values of wider types for every (Rust type, column kind) pair, plus proptest-generated wide values; oracle = mathematical equality after decoding at the column's wire width, acceptance model from the property",
         "Finite sub-domains are enumerated completely (all u8/i8/u16/i16 values x 12 column kinds; all 2^k, 2^k+-1 and range bounds of the wider types incl. usize/isize and generic Value::Int/UInt); random wide values on top; a sample of each set also travels through a real binary resultset.",
         "The public encoder to_mysql_bin is what RowWriter calls for every non-NULL cell; assert!-refusals count as refusals."),
 "C09": ("exploration", "proptest-generated column-descriptor lists at three sites (text header, binary header, PREPARE reply); round-trip oracle through the reference column-definition decoder, mysql_common's Column parser as second opinion",
         "Generated search over 0-1023 descriptors with names up to 70000 bytes (biased to the length-encoding class edges 250/251 and 65535/65536), every ColumnType variant and all 16 flag bits, arbitrary statement ids; the decoded metadata must equal the declared metadata field by field and in order.",
         "Fields the property does not mention (charset, length, decimals, org_name) are not asserted."),
 "C13": ("exploration", "enumeration of all ErrorKind variants (list re-read from the source at build time) x reporting sites, proptest-generated messages; oracle = decoded ERR packet (own decoder + mysql_common::ErrPacket) equals (kind as u16, kind.sqlstate(), message); table checks against the mysql crate's code table, curated SQLSTATE pairs and a pinned snapshot",
         "Exhaustive over defined error kinds (every kind at >= 1 site in the quick tier, every kind x every site in the thorough tier) with generated messages incl. empty, 70000-byte, non-UTF-8, '#', NUL, 0xFF; numeric code <-> kind conversion checked both ways for every variant.",
         "The SQLSTATE snapshot is a change detector for the table of the pinned tree (stated in the evidence)."),
 "C14": ("exploration", "enumeration of B x B boundary pairs plus proptest-generated u64 pairs and zero-column row counts; oracle = decoded OK packet (own decoder + mysql_common OkPacket parser) carries exactly the reported numbers",
         "All pairs over the length-encoded-integer class boundaries (250/251, 2^16, 2^24, 2^32, 2^63, 2^64-1) in text and binary mode, chains of up to 4 completions, zero-column resultsets with 0-70000 ended rows in end_row / write_row mixes.",
         "None beyond the reference OK decoder."),
 "C02": ("exploration", "proptest-generated command sequences over all nine commands with query text from three classes (built-in, certainly-not-built-in incl. look-alikes, grey) and non-UTF-8 payloads; model-based oracle (expected callback log, whole-log equality)",
         "Generated search over command sequences with arbitrary text and shim-chosen u32 statement ids; an executable model maps the command list to the exact callback log the shim must record (callback kind, order, verbatim arguments, bare schema names), so extra, missing, reordered or altered callbacks are all visible.",
         "Grey spellings may be treated either way; executes of dead ids are C10's domain."),
 "C08": ("exploration", "proptest-generated parameter blocks for every bindable type code x signedness x NULL pattern x legal length form; round-trip oracle (reference encoder -> server decoder -> recording shim, incl. conversion to the Rust types)",
         "Generated search over 0-600 declared parameters with every type code the protocol defines a binary encoding for, full-width integer bit patterns, all float bit patterns, strings across the length-encoding classes and every legal DATE/DATETIME/TIME length form; the shim must be shown the declared number of parameters with the bound type code, the exact value and a faithful conversion to the Rust type.",
         "Conversions are only compared where the Rust target type can represent the value (not the zero date, negative TIME or NaN)."),
 "C10": ("exploration", "proptest-generated statement-lifecycle histories (valid prefix, optional use of a dead id, tail); model-based oracle (reference map live: id -> declared parameter count)",
         "Generated search over interleavings of PREPARE(ok|error)/EXECUTE/SEND_LONG_DATA/CLOSE over a pool of ids incl. 0 and u32::MAX; the callback log must equal the model's up to the first use of a non-live id, where the connection must end with Err and no further callback; CLOSE always reaches on_close and adds no bytes.",
         "Executions always bind types (protocol requirement after prepare), so stale bound types are not observable; stale long data and parameter counts are."),
 "C16": ("exploration", "proptest-generated execution histories over several statements, each execution choosing rebind or reuse; model-based oracle (types[stmt])",
         "Generated search over histories of 2-30 executions on 2-4 statements with arbitrary bound types; values are encoded per the model's types in force and the shim must be shown exactly the model's (type, value) lists, so cross-statement leakage, partial replacement and mis-framed reuse are visible.",
         "The shim iterates all parameters of every execution."),
 "C17": ("exploration", "proptest-generated long-data histories across statements and parameter indexes, plus enumerated multi-packet chunks; model-based oracle (pending[stmt][param])",
         "Generated search over interleavings of chunks (sizes 0 to 70000, one >= 2^24 bytes enumerated) for several statements and parameters with executions whose long-data parameters are omitted inline; the addressed parameters must arrive as the in-order concatenation, everything else as encoded, exactly once, never in another statement.",
         "Long data is addressed to string-typed, non-NULL parameters as client libraries do."),
 "C11": ("exploration", "proptest-generated handshake responses (4.1 and 3.20 layouts, random capability masks, arbitrary non-NUL user names, trailing bytes, sequence ids) x TLS configured or not x shim accepts or rejects x pipelined commands; oracle = reference greeting decoder (+ mysql_common::HandshakePacket) and the ordered callback log",
         "Generated search over the handshake domain the property lists; the greeting must be a well-formed protocol-10 greeting with the right capability bits, flushed before the first read; after_authentication must run exactly once, first, with the exact user bytes; a rejection must yield ERR 1045/28000, the shim's own error from run_on and no command callback even when commands are already pipelined. One case in 12 has the peer go away during set-up; after every case an ordinary connection served by the same thread must start with its greeting (canary).",
         "The SSL-requested-and-configured case is C18's."),
 "C18": ("exploration", "proptest-generated TLS upgrades: a rustls ClientConnection embedded in the scripted transport x chunk schedules around the SSLRequest/ClientHello boundary x {TLS 1.2, 1.3} x client certificate or not x lock-step or pipelined conversations; oracle = rustls accepts every server byte after the greeting as TLS records, callback log (user name, DER chain) and a differential against the same conversation in plaintext",
         "Generated search over all split points of the client stream around the SSL request (cut inside it, SSL request + k bytes of the ClientHello in one read, everything in one read, 1-byte reads) and arbitrary chunkings of the rest of the handshake; the decrypted replies must equal the plaintext run message for message, nothing may be sent in plaintext after the greeting, the client must never be left waiting, and a TLS request to a shim without configuration must fail before after_authentication.",
         "rustls is the only TLS peer; key-exchange randomness does not influence case or verdict."),
 "C19": ("fault_enumeration", "proptest-generated conversations, each re-run with every fault point enumerated (EOF after k bytes, one-off / persistent error and zero-length write at every transport operation, shim error at every callback); oracle = Ok/Err classification, panic capture, prefix relation of callback logs",
         "For each generated conversation the fault space is enumerated exhaustively from its own fault-free operation trace (about 500 faulted runs per conversation, ~200000 per quick run): connection end is Ok exactly at command boundaries after the handshake, every transport fault yields Err (never Ok, never a panic) with no callback started after the fault, shim errors come back unchanged.",
         "Injected errors are of a kind std does not retry (not Interrupted); faults are injected in plaintext conversations."),
 "C20": ("exploration", "exhaustive enumeration of short payloads / raw streams / parameter-block bodies over reduced alphabets, proptest-driven grammar-aware mutation of valid conversations and random streams, enumerated fragment-sequence-id patterns (coverage-guided libFuzzer campaigns in the thorough tier); oracle = no panic, no wedge (read budget; nothing left unflushed or unsaid when the server first waits for more than the client sent), output is a sequence of well-formed packets",
         "All strings up to length 4-5 over alphabets of command bytes and boundary values in four positions (as command, as handshake, unframed after/instead of the handshake) and as execute parameter blocks for four declared parameter counts; hundreds of thousands of mutated conversations; any panic is keyed by a (file, source-line text, message) signature so known sites and new ones are told apart.",
         "Never establishes absence; a wedge is detected as reads after end-of-stream exceeding a budget, or as server output that only appears after the server already waited for input the client never sent - not by a clock."),
}
NOT_YET = {}

def main():
    props = [json.loads(l) for l in open(os.path.join(HERE, "properties.jsonl"))]
    checks = []
    na = []
    for p in props:
        pid = p["id"]
        if pid in CHECKS:
            cat, tech, text, note = CHECKS[pid]
            checks.append({
                "property_id": pid,
                "quick_cmd": f"./check {pid} quick",
                "thorough_cmd": f"./check {pid} thorough",
                "evidence_file": f"evidence/{pid}.json",
                "replay_cmd_template": f"./check {pid} replay {{path}}",
                "engine": "vcheck",
                "level_claimed": {"category": cat, "text": text, "design_ref": f"DESIGN.md section 2, {pid}"},
                "level_note": note,
                "technique": tech,
            })
        else:
            na.append({"property_id": pid, "reason": NOT_YET.get(pid, "check not built yet (work in progress; see DESIGN.md section 7)")})
    m = {
        "version": 1,
        "setup_cmd": "cd harness && CARGO_NET_OFFLINE=true cargo build --profile verif --offline",
        "hooks": {
            "guard": "msql_srv_verif",
            "enable": "no source hooks are needed: every check observes the library through its public API (run_on, MysqlShim, writer types, ToMysqlValue) and an in-memory transport",
            "baseline_off_cmd": "cd /repo && cargo test --workspace --no-fail-fast --offline",
            "source_commits": [],
            "add_only": True,
        },
        "engines": [{
            "name": "vcheck",
            "path": "harness/",
            "serves_properties": sorted(CHECKS.keys()),
            "kind_free_text": "Rust binary (proptest TestRunner over choice-stream generators, 16 shards) driving MysqlIntermediary::run_on over a scripted in-memory transport with a programmable recording shim; reference client decoder as oracle",
        }],
        "checks": checks,
        "not_applicable": na,
        "notes": "All checks: ./check <id> quick|thorough|replay <file>. Exit 0 held / 1 VIOLATION / 2 infrastructure (never a violation). Known findings: KNOWN_FINDINGS.txt.",
    }
    json.dump(m, open(os.path.join(HERE, "MANIFEST.json"), "w"), indent=1)
    print("wrote MANIFEST.json with", len(checks), "checks,", len(na), "not applicable")

if __name__ == "__main__":
    main()
