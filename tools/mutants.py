#!/usr/bin/env python3
"""Sensitivity pass: deliberate property-breaking (and a few property-preserving) edits applied to a
SCRATCH worktree of /repo (never to /repo itself), each followed by the checks that should notice.

usage: tools/mutants.py [--scratch DIR] [--only ID[,ID..]] [--props all|listed] [--tests] [--tier quick]
Results are appended to <scratch>/mutants.log and summarised on stdout.
"""
import argparse, json, os, subprocess, sys, time

# (id, file, old, new, [properties expected to notice], note)
# expected == [] means the edit preserves every property: all checks must stay green.
M = [
 # ---- C01 inbound reassembly
 ("c01-no-drain", "src/packet.rs", "            self.bytes.drain(0..self.start);\n            self.start = 0;", "            self.start = 0;", ["C01"], "consumed bytes are not dropped from the buffer"),
 ("c01-remaining-off-by-one", "src/packet.rs", "                        self.remaining = rest.len();", "                        self.remaining = rest.len().saturating_sub(if rest.len() == 3 { 1 } else { 0 });", ["C01"], "one byte lost when exactly 3 bytes of the next header are buffered"),
 ("c01-take-short", "src/packet.rs", "    let (i, bytes) = nom::bytes::complete::take(U24_MAX)(i)?;", "    let (i, bytes) = nom::bytes::complete::take(U24_MAX - 1)(i)?;", ["C01"], "full fragments lose their last byte"),
 ("c01-forget-last-fragment", "src/packet.rs", "            if let Some(mut pkt) = full.1 {\n                pkt.extend(last.1);", "            if let Some(pkt) = full.1 {", ["C01"], "tail fragment of a multi-packet message dropped"),
 ("c01-buffer-growth", "src/packet.rs", "            self.bytes.resize(std::cmp::max(4096, end * 2), 0);", "            self.bytes.resize(end + 1500, 0);", [], "different receive-buffer policy (property-preserving)"),
 ("c01-stale-start", "src/packet.rs", "        self.start = self.bytes.len() - self.remaining;\n\n        loop {", "        self.start = self.bytes.len() - self.remaining;\n        if self.remaining == 4096 { self.start += 0; }\n\n        loop {", [], "no-op edit (property-preserving)"),
 # ---- C02 routing
 ("c02-keep-backticks", "src/lib.rs", "let schema = schema.trim().trim_end_matches(';').trim_matches('`');", "let schema = schema.trim().trim_end_matches(';');", ["C02"], "USE `db` arrives with the quotes"),
 ("c02-use-prefix", "src/lib.rs", "q.starts_with(b\"USE \") || q.starts_with(b\"use \")", "q.starts_with(b\"USE\") || q.starts_with(b\"use\")", ["C02"], "USEFUL / use_db treated as USE"),
 ("c02-close-unknown-skipped", "src/lib.rs", "                    self.shim.on_close(stmt);\n                    stmts.remove(&stmt);", "                    if stmts.remove(&stmt).is_some() {\n                        self.shim.on_close(stmt);\n                    }", ["C02", "C10"], "on_close only for known ids"),
 ("c02-lossy-utf8", "src/lib.rs", "                        self.shim.on_query(\n                            ::std::str::from_utf8(q)\n                                .map_err(|e| io::Error::new(io::ErrorKind::InvalidData, e))?,\n                            w,\n                        )?;", "                        self.shim.on_query(&String::from_utf8_lossy(q), w)?;", ["C02"], "invalid UTF-8 handed to the shim lossily"),
 ("c02-probe-case-insensitive", "src/lib.rs", "if q.starts_with(b\"SELECT @@\") || q.starts_with(b\"select @@\") {", "if q.len() >= 9 && q[..9].eq_ignore_ascii_case(b\"select @@\") {", [], "more lenient probe recognition (grey class; property-preserving)"),
 ("c02-probe-too-greedy", "src/lib.rs", "if q.starts_with(b\"SELECT @@\") || q.starts_with(b\"select @@\") {", "if q.starts_with(b\"SELECT @\") || q.starts_with(b\"select @@\") {", ["C02"], "SELECT @x swallowed as a system-variable probe"),
 # ---- C03 responses
 ("c03-more-flag-inverted", "src/resultset.rs", "        if more_exists {\n            status.set", "        if !more_exists {\n            status.set", ["C03"], "more-results flag inverted"),
 ("c03-drop-no-finalize", "src/resultset.rs", "        let res = self.finalize(false);\n        // a transport error is remembered", "        let res: io::Result<()> = Ok(());\n        // a transport error is remembered", ["C03"], "dropped QueryResultWriter does not terminate the response"),
 ("c03-no-endrow-check", "src/resultset.rs", "        if self.col != self.columns.len() {\n            return Err(io::Error::new(\n                io::ErrorKind::InvalidData,\n                \"row has fewer columns than specification\",\n            ));\n        }", "", ["C03"], "short rows are emitted"),
 ("c03-reply-to-close", "src/lib.rs", "                    // NOTE: spec dictates no response from server", "                    writers::write_ok_packet(&mut self.rw, 0, 0, StatusFlags::empty())?;", ["C03", "C10"], "CLOSE answered with OK"),
 ("c03-finish-error-keeps-more", "src/resultset.rs", "        self.finish_inner(false)?;\n\n        self.result.take().unwrap().error(kind, msg)", "        self.finish_inner(true)?;\n\n        self.result.take().unwrap().error(kind, msg)", ["C03", "C13"], "finish_error emits EOF before the ERR"),
 ("c03-zero-col-rowcount-start", "src/resultset.rs", "        if self.columns.is_empty() {\n            self.col += 1;\n            return Ok(());\n        }\n\n        if self.col != self.columns.len() {", "        if self.columns.is_empty() {\n            self.col += 2;\n            return Ok(());\n        }\n\n        if self.col != self.columns.len() {", ["C14", "C03"], "zero-column row count doubled"),
 # ---- C04 outbound framing
 ("c04-limit-minus-one", "src/packet.rs", "        let left = min(buf.len(), U24_MAX + 4 - self.to_write.len());\n        self.to_write.extend(&buf[..left]);\n\n        if self.to_write.len() == U24_MAX + 4 {", "        let left = min(buf.len(), U24_MAX + 3 - self.to_write.len());\n        self.to_write.extend(&buf[..left]);\n\n        if self.to_write.len() == U24_MAX + 3 {", ["C04"], "packets split one byte early"),
 ("c04-no-empty-terminator", "src/packet.rs", "            self.continued = true;", "            self.continued = false;", ["C04"], "exact multiples not terminated"),
 ("c04-extra-flush", "src/writers.rs", "    w.write_all(&[0x00, 0x00])?; // no warnings\n    w.end_packet()", "    w.write_all(&[0x00, 0x00])?; // no warnings\n    w.end_packet()?;\n    w.flush()", [], "extra flush after every OK (property-preserving)"),
 # ---- C05 sequence ids
 ("c05-saturating", "src/packet.rs", "        self.seq = self.seq.wrapping_add(1);", "        self.seq = self.seq.saturating_add(1);", ["C05"], "ids stall at 255"),
 ("c05-first-fragment-id", "src/packet.rs", "            let seq = last.0;\n            if let Some(mut pkt) = full.1 {", "            let seq = if full.1.is_some() { last.0.wrapping_sub(1) } else { last.0 };\n            if let Some(mut pkt) = full.1 {", ["C05"], "reply continues after the first fragment's id"),
 # ---- C06 text values
 ("c06-year-unpadded", "src/value/encode.rs", "            format!(\"{:04}-{:02}-{:02}\", self.year(), self.month(), self.day()).as_bytes(),", "            format!(\"{}-{:02}-{:02}\", self.year(), self.month(), self.day()).as_bytes(),", ["C06"], "years < 1000 not zero padded"),
 ("c06-micros-unpadded", "src/value/encode.rs", "                    \"{:04}-{:02}-{:02} {:02}:{:02}:{:02}.{:06}\",", "                    \"{:04}-{:02}-{:02} {:02}:{:02}:{:02}.{}\",", ["C06"], "microseconds not zero padded"),
 ("c06-hours-mod-24", "src/value/encode.rs", "        let h = s / 3600;\n        let m = (s % 3600) / 60;", "        let h = (s / 3600) % 24;\n        let m = (s % 3600) / 60;", ["C06"], "durations over a day wrap"),
 ("c06-null-as-empty", "src/value/encode.rs", "            w.write_u8(0xFB)\n        }\n    }\n\n    fn to_mysql_bin<W: Write>(&self, w: &mut W, ct: &Column) -> io::Result<()> {\n        if let Some(ref v) = *self {", "            w.write_u8(0x00)\n        }\n    }\n\n    fn to_mysql_bin<W: Write>(&self, w: &mut W, ct: &Column) -> io::Result<()> {\n        if let Some(ref v) = *self {", ["C06"], "None sent as empty string"),
 # ---- C07 binary rows
 ("c07-bitmap-len", "src/resultset.rs", "        let bitmap_len = (columns.len() + 7 + 2) / 8;", "        let bitmap_len = (columns.len() + 7) / 8 + if columns.len() % 8 == 0 { 1 } else { 0 };", ["C07"], "bitmap one byte short for 7 mod 8 columns"),
 ("c07-no-notnull-check", "src/resultset.rs", "                if c.colflags.contains(ColumnFlags::NOT_NULL_FLAG) {", "                if false && c.colflags.contains(ColumnFlags::NOT_NULL_FLAG) {", ["C07", "C03"], "NULL accepted for NOT NULL columns"),
 ("c07-f32-into-double", "src/value/encode.rs", "            ColumnType::MYSQL_TYPE_DOUBLE => w.write_f64::<LittleEndian>(f64::from(*self)),", "            ColumnType::MYSQL_TYPE_DOUBLE => w.write_f32::<LittleEndian>(*self),", ["C07"], "f32 bytes into a DOUBLE column"),
 ("c07-swap-month-day", "src/value/encode.rs", "                w.write_u8(4u8)?;\n                w.write_u16::<LittleEndian>(year)?;\n                w.write_u8(self.month() as u8)?;\n                w.write_u8(self.day() as u8)", "                w.write_u8(4u8)?;\n                w.write_u16::<LittleEndian>(year)?;\n                w.write_u8(self.day() as u8)?;\n                w.write_u8(self.month() as u8)", ["C07"], "DATE month/day swapped"),
 ("c07-ref-isnull-lost", "src/value/encode.rs", "    fn is_null(&self) -> bool {\n        (*self).is_null()\n    }", "", ["C07", "C03"], "NULL by reference not reported (F10 again)"),
 ("c07-time-days-dropped", "src/value/encode.rs", "                    w.write_u32::<LittleEndian>(d as u32)?;", "                    w.write_u32::<LittleEndian>(0u32)?;", ["C07"], "TIME days always 0"),
 # ---- C08 parameters
 ("c08-unsigned-mask", "src/params.rs", "(typmap[2 * i + 1] & 128) != 0,", "(typmap[2 * i + 1] & 1) != 0,", ["C08"], "unsigned flag read from the wrong bit"),
 ("c08-short-as-i32", "src/value/decode.rs", "                    Ok(ValueInner::Int(i64::from(\n                        input.read_i16::<LittleEndian>()?,\n                    )))", "                    Ok(ValueInner::Int(i64::from(\n                        input.read_i32::<LittleEndian>()?,\n                    )))", ["C08"], "SHORT read as 4 bytes"),
 ("c08-time-micros", "src/value/decode.rs", "                micros * 1_000,", "                micros,", ["C08"], "TIME microseconds taken as nanoseconds"),
 ("c08-float-f64", "src/value/decode.rs", "                let f = input.read_f32::<LittleEndian>()?;\n                println!(\"read {}\", f);\n                Ok(ValueInner::Double(f64::from(f)))", "                let f = input.read_f64::<LittleEndian>()?;\n                Ok(ValueInner::Double(f))", ["C08"], "FLOAT read as 8 bytes"),
 ("c08-bitmap-len", "src/params.rs", "            let nullmap_len = (self.params as usize + 7) / 8;", "            let nullmap_len = self.params as usize / 8 + 1;", ["C08"], "NULL bitmap one byte too long for multiples of 8"),
 ("c08-year-unsigned", "src/value/decode.rs", "            ColumnType::MYSQL_TYPE_SHORT | ColumnType::MYSQL_TYPE_YEAR => {\n                if unsigned {", "            ColumnType::MYSQL_TYPE_SHORT | ColumnType::MYSQL_TYPE_YEAR => {\n                if unsigned || ct == ColumnType::MYSQL_TYPE_YEAR {", ["C08"], "YEAR always unsigned"),
 # ---- C09 metadata
 ("c09-swap-names", "src/writers.rs", "        w.write_lenenc_str(c.table.as_bytes())?;\n        w.write_lenenc_str(b\"\")?;\n        w.write_lenenc_str(c.column.as_bytes())?;", "        w.write_lenenc_str(c.column.as_bytes())?;\n        w.write_lenenc_str(b\"\")?;\n        w.write_lenenc_str(c.table.as_bytes())?;", ["C09"], "table and column swapped"),
 ("c09-flags-u8", "src/writers.rs", "        w.write_u16::<LittleEndian>(c.colflags.bits())?;", "        w.write_u16::<LittleEndian>(c.colflags.bits() & 0xff)?;", ["C09"], "high flag byte dropped"),
 ("c09-count-u8", "src/writers.rs", "    w.write_lenenc_int(i.len() as u64)?;", "    w.write_u8(i.len() as u8)?;", ["C09", "C03"], "column count as one byte"),
 ("c09-swap-prepare-counts", "src/writers.rs", "    w.write_u16::<LittleEndian>(ci.len() as u16)?;\n    w.write_u16::<LittleEndian>(pi.len() as u16)?;", "    w.write_u16::<LittleEndian>(pi.len() as u16)?;\n    w.write_u16::<LittleEndian>(ci.len() as u16)?;", ["C09", "C03"], "PREPARE_OK counts swapped"),
 # ---- C10 lifecycle
 ("c10-no-remove", "src/lib.rs", "                    self.shim.on_close(stmt);\n                    stmts.remove(&stmt);", "                    self.shim.on_close(stmt);", ["C10"], "closed ids stay executable"),
 ("c10-unknown-ids-served", "src/lib.rs", "                    let state = stmts.get_mut(&stmt).ok_or_else(|| {\n                        io::Error::new(\n                            io::ErrorKind::InvalidData,\n                            format!(\"asked to execute unknown statement {}\", stmt),\n                        )\n                    })?;", "                    let state = stmts.entry(stmt).or_default();", ["C10"], "unknown ids reach the shim"),
 ("c10-keep-on-reprepare", "src/resultset.rs", "        self.stmts.insert(\n            id,\n            StatementData {\n                params: params.len() as u16,\n                ..Default::default()\n            },\n        );", "        let n = params.len() as u16;\n        self.stmts.entry(id).or_insert_with(StatementData::default).params = n;", ["C10"], "re-prepare keeps stale long data"),
 ("c10-longdata-unknown-ignored", "src/lib.rs", "                    stmts\n                        .get_mut(&stmt)\n                        .ok_or_else(|| {\n                            io::Error::new(\n                                io::ErrorKind::InvalidData,\n                                format!(\"got long data packet for unknown statement {}\", stmt),\n                            )\n                        })?\n                        .long_data", "                    stmts\n                        .entry(stmt)\n                        .or_default()\n                        .long_data", ["C10"], "long data for unknown ids creates the statement"),
 # ---- C11 greeting / auth
 ("c11-always-ssl", "src/lib.rs", "        if tls_conf.is_some() {\n            capabilities[1] |= 0x08; // SSL support flag", "        if tls_conf.is_some() || true {\n            capabilities[1] |= 0x08; // SSL support flag", ["C11"], "SSL always advertised"),
 ("c11-ok-on-reject", "src/lib.rs", "                writers::write_err(\n                    ErrorKind::ER_ACCESS_DENIED_ERROR,\n                    \"client authentication failed\".as_ref(),\n                    &mut self.rw,\n                )?;", "                writers::write_ok_packet(&mut self.rw, 0, 0, StatusFlags::empty())?;", ["C11"], "rejected client gets OK"),
 ("c11-filler-22", "src/commands.rs", "        let (i, _) = nom::bytes::complete::take(23u8)(i)?;", "        let (i, _) = nom::bytes::complete::take(22u8)(i)?;", ["C11"], "user name parsed one byte early"),
 ("c11-other-error-kind", "src/lib.rs", "                    ErrorKind::ER_ACCESS_DENIED_ERROR,\n                    \"client authentication failed\".as_ref(),", "                    ErrorKind::ER_DBACCESS_DENIED_ERROR,\n                    \"client authentication failed\".as_ref(),", ["C11"], "1044 instead of 1045"),
 ("c11-user-trimmed", "src/lib.rs", "            auth_context.username = handshake.username.map(|x| x.to_vec());\n\n            self.rw.set_seq(seq.wrapping_add(1));\n\n            #[cfg(not(feature = \"tls\"))]", "            auth_context.username = handshake.username.map(|x| String::from_utf8_lossy(x).trim().as_bytes().to_vec());\n\n            self.rw.set_seq(seq.wrapping_add(1));\n\n            #[cfg(not(feature = \"tls\"))]", ["C11"], "user name normalised"),
 ("c11-greeting-version", "src/lib.rs", "b\"5.1.10-alpha-msql-proxy\\0\"", "b\"8.0.33-msql-srv\\0\"", [], "other server version string (property-preserving)"),
 # ---- C12 flushing
 ("c12-no-transport-flush", "src/packet.rs", "        let res = self.rw.flush();\n        if let Err(ref e) = res {\n            self.failed = Some(e.kind());\n        }\n        res", "        Ok(())", ["C12", "C19"], "transport never flushed"),
 ("c12-flush-only-when-idle", "src/lib.rs", "            self.rw.flush()?;\n        }\n        Ok(())\n    }\n}", "            if !self.rw.has_buffered_input() {\n                self.rw.flush()?;\n            }\n        }\n        Ok(())\n    }\n}", ["C12"], "flush skipped while input is buffered (even a partial command)"),
 # ---- C13 errors
 ("c13-swap-sqlstate", "src/errorcodes.rs", "            ErrorKind::ER_NO_DB_ERROR => b\"3D000\",\n            ErrorKind::ER_DA_INVALID_CONDITION_NUMBER => b\"35000\",", "            ErrorKind::ER_NO_DB_ERROR => b\"35000\",\n            ErrorKind::ER_DA_INVALID_CONDITION_NUMBER => b\"3D000\",", ["C13"], "two SQLSTATE arms swapped"),
 ("c13-msg-truncated", "src/writers.rs", "    w.write_all(msg)?;\n    w.end_packet()", "    w.write_all(&msg[..msg.len().min(512)])?;\n    w.end_packet()", ["C13"], "messages cut at 512 bytes"),
 ("c13-from-u16-arm", "src/errorcodes.rs", "            1046_u16 => ErrorKind::ER_NO_DB_ERROR,", "            1046_u16 => ErrorKind::ER_BAD_DB_ERROR,", ["C13"], "numeric code maps to the wrong kind"),
 # ---- C14 counts
 ("c14-rows-u32", "src/writers.rs", "    w.write_lenenc_int(rows)?;", "    w.write_lenenc_int(rows as u32 as u64)?;", ["C14"], "affected rows truncated to 32 bits"),
 ("c14-zero-col-off-by-one", "src/resultset.rs", "                    rows: self.col as u64,", "                    rows: (self.col as u64).saturating_sub(if self.col > 250 { 1 } else { 0 }),", ["C14"], "zero-column count off by one above 250"),
 # ---- C15 integers
 ("c15-no-assert", "src/value/encode.rs", "            ColumnType::MYSQL_TYPE_TINY => {\n                assert!(!signed);\n                w.write_u8(*self)", "            ColumnType::MYSQL_TYPE_TINY => {\n                w.write_u8(*self)", ["C15", "C07"], "u8 200 into signed TINY arrives as -56"),
 ("c15-as-cast", "src/value/encode.rs", "        match <$target>::try_from(*$self) {\n            Ok(v) => $w.$m::<LittleEndian>(v),\n            Err(_) => Err(bad($self, $c)),\n        }", "        $w.$m::<LittleEndian>(*$self as $target)", ["C15", "C07"], "silent truncation"),
 # ---- C16 types
 ("c16-no-clear", "src/params.rs", "                self.bound_types.clear();\n", "", ["C16"], "rebind appends"),
 ("c16-flag-not-skipped", "src/params.rs", "                self.input = &rest[1..];", "                self.input = rest;", ["C16"], "F2 again"),
 # ---- C17 long data
 ("c17-no-clear", "src/lib.rs", "                    state.long_data.clear();", "", ["C17"], "long data delivered again"),
 ("c17-replace", "src/lib.rs", "                        .long_data\n                        .entry(param)\n                        .or_insert_with(Vec::new)\n                        .extend(data);", "                        .long_data\n                        .insert(param, data.to_vec());", ["C17"], "chunks replace instead of append"),
 ("c17-consume-inline", "src/params.rs", "        let v = if let Some(data) = self.long_data.get(&self.col) {\n            Value::bytes(&data[..])", "        let v = if let Some(data) = self.long_data.get(&self.col) {\n            let _ = Value::parse_from(&mut self.input, pt.0, pt.1);\n            Value::bytes(&data[..])", ["C17"], "inline bytes consumed for long-data parameters"),
 # ---- C18 TLS
 ("c18-prepend-nothing", "src/packet.rs", "            .switch_to_tls(config, &self.bytes[self.bytes.len() - self.remaining..]);", "            .switch_to_tls(config, &[]);", ["C18"], "buffered ClientHello bytes lost"),
 ("c18-remaining-kept", "src/packet.rs", "        self.remaining = 0;\n        res", "        res", ["C18"], "ClientHello bytes also parsed as a MySQL packet"),
 ("c18-prepend-all", "src/packet.rs", "            .switch_to_tls(config, &self.bytes[self.bytes.len() - self.remaining..]);", "            .switch_to_tls(config, &self.bytes[..]);", ["C18"], "SSL request fed to rustls too"),
 # ---- C19 faults
 ("c19-eof-always-ok", "src/packet.rs", "                if self.bytes.is_empty() {\n                    return Ok(None);\n                } else {", "                if self.bytes.is_empty() || self.bytes.len() < 4 {\n                    return Ok(None);\n                } else {", ["C19"], "EOF inside a header reported as clean close"),
 ("c19-flush-error-ignored", "src/lib.rs", "            self.rw.flush()?;\n        }\n        Ok(())\n    }\n}", "            let _ = self.rw.flush();\n        }\n        Ok(())\n    }\n}", ["C19"], "flush errors swallowed"),
 ("c19-drop-unwrap", "src/resultset.rs", "        if !self.writer.has_failed() && !std::thread::panicking() {\n            res.unwrap();\n        }", "        res.unwrap();", ["C19"], "F9 again"),
 ("c19-sticky-not-set", "src/packet.rs", "        if let Err(e) = self.rw.write_all(&self.to_write[..]) {\n            self.failed = Some(e.kind());\n            return Err(e);\n        }", "        self.rw.write_all(&self.to_write[..])?;", ["C19"], "write failure inside a destructor is lost"),
 # ---- C20 robustness
 ("c20-parse-unwrap", "src/lib.rs", "            let cmd = commands::parse(&packet)\n                .map_err(|e| {\n                    io::Error::new(\n                        io::ErrorKind::InvalidData,\n                        format!(\"unknown or malformed command: {:?}\", e),\n                    )\n                })?\n                .1;", "            let cmd = commands::parse(&packet).unwrap().1;", ["C20"], "F6 again"),
 ("c20-no-param-check", "src/lib.rs", "                        params.check()?;\n", "", ["C20"], "F6 again (params)"),
 ("c20-execute-short", "src/commands.rs", "    let (i, _iterations) = nom::number::complete::le_u32(i)?;\n    Ok((&[], Command::Execute { stmt, params: i }))", "    let _iterations = &i[..4];\n    Ok((&[], Command::Execute { stmt, params: &i[4..] }))", ["C20"], "slice index panic on truncated execute"),
 # ---- property-preserving edits (alarm-soundness review, DESIGN.md section 5a): every check must stay green
 ("keep-greeting-secure-conn", "src/lib.rs", "        let capabilities = &mut [0x00, 0x42]; // 4.1 proto", "        let capabilities = &mut [0x05, 0xc2]; // 4.1 proto, long password, long flag, secure connection", [], "greeting advertises more capabilities incl. SECURE_CONNECTION (salt part 2 is already sent)"),
 ("keep-status-autocommit", "src/writers.rs", "    w.write_u16::<LittleEndian>(s.bits())?;\n    w.write_all(&[0x00, 0x00])?; // no warnings", "    w.write_u16::<LittleEndian>(s.bits() | 0x0002)?;\n    w.write_all(&[0x00, 0x00])?; // no warnings", [], "SERVER_STATUS_AUTOCOMMIT set in every OK"),
 ("keep-eof-status-autocommit", "src/writers.rs", "    w.write_all(&[0xFE, 0x00, 0x00])?;\n    w.write_u16::<LittleEndian>(s.bits())?;", "    w.write_all(&[0xFE, 0x00, 0x00])?;\n    w.write_u16::<LittleEndian>(s.bits() | 0x0002)?;", [], "SERVER_STATUS_AUTOCOMMIT set in every EOF"),
 ("keep-ok-info-string", "src/writers.rs", "    w.write_all(&[0x00, 0x00])?; // no warnings\n    w.end_packet()", "    w.write_all(&[0x00, 0x00])?; // no warnings\n    w.write_lenenc_str(b\"Rows matched: 0\")?;\n    w.end_packet()", [], "OK packets carry an info string (length-encoded, as real servers send it; a raw string<EOF> is rejected by the mysql crate itself)"),
 ("keep-coldef-charset-length", "src/writers.rs", "        w.write_u32::<LittleEndian>(1024)?;", "        w.write_u32::<LittleEndian>(255)?;", [], "other column display length"),
 ("keep-close-order", "src/lib.rs", "                    self.shim.on_close(stmt);\n                    stmts.remove(&stmt);", "                    stmts.remove(&stmt);\n                    self.shim.on_close(stmt);", [], "registry updated before on_close"),
 ("keep-error-kind-unknown-stmt", "src/lib.rs", "                        io::Error::new(\n                            io::ErrorKind::InvalidData,\n                            format!(\"asked to execute unknown statement {}\", stmt),", "                        io::Error::new(\n                            io::ErrorKind::NotFound,\n                            format!(\"no such statement: {}\", stmt),", [], "other io::ErrorKind and text for library-made errors"),
 ("keep-fraction-always", "src/value/encode.rs", "        let us = self.nanosecond() / 1_000;\n\n        if us != 0 {\n            w.write_lenenc_str(\n                format!(\n                    \"{:04}-{:02}-{:02} {:02}:{:02}:{:02}.{:06}\",", "        let us = self.nanosecond() / 1_000;\n\n        if us != 0 || true {\n            w.write_lenenc_str(\n                format!(\n                    \"{:04}-{:02}-{:02} {:02}:{:02}:{:02}.{:06}\",", [], "fractional seconds always printed in text datetimes"),
 ("keep-datetime-bin-always-11", "src/value/encode.rs", "                if us != 0 {\n                    w.write_u8(11u8)?;\n                } else {\n                    w.write_u8(7u8)?;\n                }", "                w.write_u8(11u8)?;", ["C07"], "NOT preserving on its own: length byte 11 without the microseconds (control)"),
 ("keep-assert-to-err", "src/value/encode.rs", "            ColumnType::MYSQL_TYPE_TINY => {\n                assert!(!signed);\n                w.write_u8(*self)", "            ColumnType::MYSQL_TYPE_TINY => {\n                if signed {\n                    return Err(bad(self, c));\n                }\n                w.write_u8(*self)", [], "assert! refusal turned into Err"),
 ("keep-flush-every-packet", "src/packet.rs", "        self.to_write.truncate(4); // back to just header\n        Ok(())\n    }\n\n    fn maybe_end_packet", "        self.to_write.truncate(4); // back to just header\n        if let Err(e) = self.rw.flush() {\n            self.failed = Some(e.kind());\n            return Err(e);\n        }\n        Ok(())\n    }\n\n    fn maybe_end_packet", [], "transport flushed after every packet"),
 ("keep-text-col-count-early", "src/resultset.rs", "        } else {\n            v.to_mysql_text(self.result.as_mut().unwrap().writer)?;\n        }", "        } else {\n            if self.col >= self.columns.len() {\n                return Err(io::Error::new(io::ErrorKind::InvalidData, \"row has more columns than specification\"));\n            }\n            v.to_mysql_text(self.result.as_mut().unwrap().writer)?;\n        }", [], "text rows refuse surplus cells already in write_col"),
 ("keep-fieldlist-err", "src/lib.rs", "                    writers::write_column_definitions(cols, &mut self.rw, true, true)?;", "                    let _ = cols;\n                    writers::write_err(ErrorKind::ER_NOT_SUPPORTED_YET, b\"COM_FIELD_LIST\", &mut self.rw)?;", [], "FIELD_LIST answered with ERR (a legal reply)"),
 ("keep-probe-resultset", "src/lib.rs", "                            _ => {\n                                w.completed(0, 0)?;\n                            }", "                            _ => {\n                                let cols = &[Column { table: String::new(), column: \"@@x\".to_owned(), coltype: myc::constants::ColumnType::MYSQL_TYPE_VAR_STRING, colflags: myc::constants::ColumnFlags::empty() }];\n                                let mut w = w.start(cols)?;\n                                w.write_row(iter::once(\"\"))?;\n                                w.finish()?;\n                            }", [], "SELECT @@x answered with a one-row resultset"),
 ("keep-use-tab", "src/lib.rs", "} else if q.starts_with(b\"USE \") || q.starts_with(b\"use \") {", "} else if q.starts_with(b\"USE \") || q.starts_with(b\"use \") || q.starts_with(b\"USE\\t\") {", [], "USE<TAB>db recognised too (grey spelling)"),
 # ---- correct versions of "optimisations" whose buggy variants were seeded (must stay green everywhere)
 ("keep-eintr-retry-correct", "src/packet.rs", "            let read = {\n                let buf = &mut self.bytes[end..];\n                self.rw.read(buf)?\n            };", "            let read = {\n                let buf = &mut self.bytes[end..];\n                match self.rw.read(buf) {\n                    Ok(n) => n,\n                    Err(ref e) if e.kind() == io::ErrorKind::Interrupted => {\n                        self.bytes.truncate(end);\n                        self.remaining = self.bytes.len();\n                        continue;\n                    }\n                    Err(e) => return Err(e),\n                }\n            };", [], "EINTR on read retried correctly (buffer truncated back first)"),
 ("keep-ok-hot-path-correct", "src/writers.rs", "    w.write_u8(0x00)?; // OK packet type\n    w.write_lenenc_int(rows)?;\n    w.write_lenenc_int(last_insert_id)?;", "    if rows < 0xfb && last_insert_id < 0xfb {\n        w.write_all(&[0x00, rows as u8, last_insert_id as u8])?;\n    } else {\n        w.write_u8(0x00)?; // OK packet type\n        w.write_lenenc_int(rows)?;\n        w.write_lenenc_int(last_insert_id)?;\n    }", [], "one-write hot path for small OK counters, with the right bound"),
 ("keep-coldef-scratch-correct", "src/writers.rs", "        w.write_lenenc_str(b\"def\")?;\n        w.write_lenenc_str(b\"\")?;\n        w.write_lenenc_str(c.table.as_bytes())?;", "        let mut head = Vec::new();\n        head.write_lenenc_str(b\"def\")?;\n        head.write_lenenc_str(b\"\")?;\n        head.write_lenenc_str(c.table.as_bytes())?;\n        w.write_all(&head)?;", [], "part of the column definition assembled in a scratch buffer and written with write_all"),
 ("keep-zero-len-time-by-total", "src/value/encode.rs", "                if self.as_secs() == 0 && us == 0 {", "                if *self == Duration::new(0, 0) || (self.as_secs() == 0 && us == 0) {", [], "equivalent zero test for the TIME zero-length form"),
 ("keep-datetime-shortest-form-correct", "src/value/encode.rs", "                if us != 0 {\n                    w.write_u8(11u8)?;\n                } else {\n                    w.write_u8(7u8)?;\n                }\n                w.write_u16::<LittleEndian>(year)?;\n                w.write_u8(self.month() as u8)?;\n                w.write_u8(self.day() as u8)?;\n                w.write_u8(self.hour() as u8)?;\n                w.write_u8(self.minute() as u8)?;\n                w.write_u8(self.second() as u8)?;", "                let date_only = us == 0 && self.num_seconds_from_midnight() == 0;\n                if us != 0 {\n                    w.write_u8(11u8)?;\n                } else if date_only {\n                    w.write_u8(4u8)?;\n                } else {\n                    w.write_u8(7u8)?;\n                }\n                w.write_u16::<LittleEndian>(year)?;\n                w.write_u8(self.month() as u8)?;\n                w.write_u8(self.day() as u8)?;\n                if date_only {\n                    return Ok(());\n                }\n                w.write_u8(self.hour() as u8)?;\n                w.write_u8(self.minute() as u8)?;\n                w.write_u8(self.second() as u8)?;", [], "binary DATETIME uses the legal 4-byte form for exact midnight (values unchanged)"),
 ("c10-statement-table-recycled-per-thread", "src/lib.rs", "        let mut stmts: HashMap<u32, _> = HashMap::new();", "        struct Keep(HashMap<u32, StatementData>);\n        impl std::ops::Deref for Keep {\n            type Target = HashMap<u32, StatementData>;\n            fn deref(&self) -> &Self::Target {\n                &self.0\n            }\n        }\n        impl std::ops::DerefMut for Keep {\n            fn deref_mut(&mut self) -> &mut Self::Target {\n                &mut self.0\n            }\n        }\n        impl Drop for Keep {\n            fn drop(&mut self) {\n                let m = std::mem::take(&mut self.0);\n                SPARE_STMTS.with(|s| *s.borrow_mut() = Some(m));\n            }\n        }\n        thread_local! {\n            static SPARE_STMTS: std::cell::RefCell<Option<HashMap<u32, StatementData>>> = std::cell::RefCell::new(None);\n        }\n        let mut stmts = Keep(SPARE_STMTS.with(|s| s.borrow_mut().take()).unwrap_or_default());", ["C10"], "the statement table's allocation is recycled between the connections of a thread without being cleared: statements of an earlier connection are executable on the next (canary)"),
 ("keep-statement-table-recycled-cleared", "src/lib.rs", "        let mut stmts: HashMap<u32, _> = HashMap::new();", "        struct Keep(HashMap<u32, StatementData>);\n        impl std::ops::Deref for Keep {\n            type Target = HashMap<u32, StatementData>;\n            fn deref(&self) -> &Self::Target {\n                &self.0\n            }\n        }\n        impl std::ops::DerefMut for Keep {\n            fn deref_mut(&mut self) -> &mut Self::Target {\n                &mut self.0\n            }\n        }\n        impl Drop for Keep {\n            fn drop(&mut self) {\n                let mut m = std::mem::take(&mut self.0);\n                m.clear();\n                SPARE_STMTS.with(|s| *s.borrow_mut() = Some(m));\n            }\n        }\n        thread_local! {\n            static SPARE_STMTS: std::cell::RefCell<Option<HashMap<u32, StatementData>>> = std::cell::RefCell::new(None);\n        }\n        let mut stmts = Keep(SPARE_STMTS.with(|s| s.borrow_mut().take()).unwrap_or_default());", [], "the statement table's allocation is recycled between the connections of a thread, cleared first (the correct version)"),
 ("keep-over-limit-command-ends-connection", "src/lib.rs", "            self.rw.set_seq(seq.wrapping_add(1));\n            let cmd = commands::parse(&packet)", "            self.rw.set_seq(seq.wrapping_add(1));\n            if packet.len() > 67_108_864 + 16 {\n                return Err(io::Error::new(io::ErrorKind::InvalidData, \"command is larger than max_allowed_packet\").into());\n            }\n            let cmd = commands::parse(&packet)", [], "a command larger than the advertised max_allowed_packet ends the connection (what MySQL does)"),
 ("keep-over-limit-command-gets-err", "src/lib.rs", "            self.rw.set_seq(seq.wrapping_add(1));\n            let cmd = commands::parse(&packet)", "            self.rw.set_seq(seq.wrapping_add(1));\n            if packet.len() > 67_108_864 + 16 {\n                writers::write_err(ErrorKind::ER_NET_PACKET_TOO_LARGE, &b\"too large\"[..], &mut self.rw)?;\n                self.rw.flush()?;\n                continue;\n            }\n            let cmd = commands::parse(&packet)", [], "a command larger than the advertised max_allowed_packet is answered with a correctly numbered ERR and the connection keeps serving (the correct version of r9-C05)"),
 ("keep-poison-after-null-refusal", "src/resultset.rs", "                if c.colflags.contains(ColumnFlags::NOT_NULL_FLAG) {\n                    return Err(io::Error::new(", "                if c.colflags.contains(ColumnFlags::NOT_NULL_FLAG) {\n                    self.col = usize::MAX - 1;\n                    return Err(io::Error::new(", [], "a RowWriter that refused a NULL is unusable afterwards (every later call fails): no property promises that a row can be continued after a refusal"),
 ("keep-poison-after-type-refusal", "src/resultset.rs", "                v.to_mysql_bin(&mut self.data, c)?;", "                if let Err(e) = v.to_mysql_bin(&mut self.data, c) {\n                    self.col = usize::MAX - 1;\n                    return Err(e);\n                }", [], "a RowWriter that refused a value is unusable afterwards"),
 ("keep-retry-interrupted-flush", "src/packet.rs", "        let res = self.rw.flush();\n        if let Err(ref e) = res {\n            self.failed = Some(e.kind());", "        let mut res = self.rw.flush();\n        while matches!(res, Err(ref e) if e.kind() == io::ErrorKind::Interrupted) {\n            res = self.rw.flush();\n        }\n        if let Err(ref e) = res {\n            self.failed = Some(e.kind());", [], "a flush interrupted by a signal is retried (legal; control for the one-off transport failure cases)"),
 ("keep-long-data-empty-chunk-correct", "src/lib.rs", "                        .long_data\n                        .entry(param)\n                        .or_insert_with(Vec::new)\n                        .extend(data);", "                        .long_data\n                        .entry(param)\n                        .or_insert_with(|| Vec::with_capacity(data.len()))\n                        .extend(data);", [], "pre-sized long-data buffer (entry still created for empty chunks)"),
]

EXTRA_SRC = {
 # helper needed by c12-flush-only-when-idle
 "c12-flush-only-when-idle": ("src/packet.rs", "    pub fn set_seq(&mut self, seq: u8) {", "    pub fn has_buffered_input(&self) -> bool {\n        self.remaining != 0\n    }\n    pub fn set_seq(&mut self, seq: u8) {"),
}

ALL_PROPS = ["C%02d" % i for i in range(1, 21)]

def sh(cmd, **kw):
    return subprocess.run(cmd, shell=True, stdout=subprocess.PIPE, stderr=subprocess.STDOUT, text=True, **kw)

def main():
    ap = argparse.ArgumentParser()
    ap.add_argument("--scratch", default="/tmp/mut")
    ap.add_argument("--only", default="")
    ap.add_argument("--props", default="listed")
    ap.add_argument("--tests", action="store_true", help="also run the repository's own test suite on each mutant")
    ap.add_argument("--tier", default="quick")
    a = ap.parse_args()
    scratch = a.scratch
    tools = os.path.dirname(os.path.abspath(__file__))
    sh(f"{tools}/scratch.sh setup {scratch}")
    sh(f"{tools}/scratch.sh sync {scratch}")
    repo = f"{scratch}/repo"
    only = set(x for x in a.only.split(",") if x)
    results = []
    for (mid, f, old, new, expect, note) in M:
        if only and mid not in only:
            continue
        sh(f"{tools}/scratch.sh reset {scratch}")
        edits = [(f, old, new)]
        if mid in EXTRA_SRC:
            edits.append(EXTRA_SRC[mid])
        ok = True
        for (ff, o, n) in edits:
            p = os.path.join(repo, ff)
            s = open(p).read()
            if s.count(o) != 1:
                print(f"{mid}: pattern occurs {s.count(o)} times in {ff} -- SKIPPED")
                ok = False
                break
            open(p, "w").write(s.replace(o, n))
        if not ok:
            results.append((mid, "pattern-missing", {}, expect))
            continue
        tests = None
        if a.tests:
            r = sh(f"cd {repo} && cargo test --workspace --no-fail-fast --offline 2>&1 | grep -E '^test result|error(\\[|:)' | head -8")
            tests = "pass" if ("failed" not in r.stdout.replace("0 failed", "") and "error" not in r.stdout and "test result" in r.stdout) else "FAIL"
        props = ALL_PROPS if (a.props == "all" or not expect) else expect
        if a.props.startswith("C"):
            # an explicit list of checks (e.g. after one check's generator changed)
            props = a.props.split(",")
        verdicts = {}
        for p in props:
            t0 = time.time()
            r = sh(f"{tools}/scratch.sh check {scratch} {p} {a.tier}")
            if r.returncode == 0:
                v = "green"
            elif r.returncode == 1:
                v = "VIOLATION"
            else:
                v = "infra(%d)" % r.returncode
            verdicts[p] = v
            if "BUILD-FAILED" in r.stdout:
                verdicts[p] = "build-failed"
                print(r.stdout[-800:])
                break
        caught = [p for p, v in verdicts.items() if v == "VIOLATION"]
        status = "ok"
        if expect and not any(p in caught for p in expect):
            status = "MISSED"
        if not expect and caught:
            status = "FALSE-ALARM"
        line = f"{mid:32s} {status:12s} tests={tests} caught={caught} verdicts={verdicts} :: {note}"
        print(line, flush=True)
        open(f"{scratch}/mutants.log", "a").write(line + "\n")
        results.append((mid, status, verdicts, expect))
    sh(f"{tools}/scratch.sh reset {scratch}")
    missed = [r[0] for r in results if r[1] not in ("ok",)]
    print("SUMMARY: %d mutants, not ok: %s" % (len(results), missed))

if __name__ == "__main__":
    main()
